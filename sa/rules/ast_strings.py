"""String operations (C03; the Z3 text boundary is shared with C26)."""

from __future__ import annotations

import ast

from .. import guards, util
from ..core import FuncTypes, dotted, norm, positional_params, walk_no_nested
from ..report import rule
from .ast_tables import dispatch, registry

Z3 = "claripy/backends/backend_z3.py"
CSTR = "claripy/backends/backend_concrete/strings.py"

STRING_OPS = [
    "StrConcat", "StrSubstr", "StrLen", "StrReplace", "StrContains", "StrPrefixOf", "StrSuffixOf", "StrIndexOf",
    "StrToInt", "IntToStr",
]
NOT_IN_PROPERTY = {"StrIsDigit": "not among the operations the property lists; it has no Z3 translation at all"}


def _taints(fn):
    """Names that hold caller-supplied string contents: <param>.value and locals assigned from them."""
    params = set(positional_params(fn))
    if fn.args.vararg:
        params.add(fn.args.vararg.arg)
    tainted = set()
    changed = True
    while changed:
        changed = False
        for st in walk_no_nested(fn):
            if isinstance(st, ast.Assign) and isinstance(st.targets[0], ast.Name) and st.targets[0].id not in tainted:
                if _is_tainted(st.value, params, tainted):
                    tainted.add(st.targets[0].id)
                    changed = True
    return params, tainted


def _is_tainted(e, params, tainted, through_escape=False):
    for n in ast.walk(e):
        if isinstance(n, ast.Call) and dotted(n.func) == "re.escape":
            continue
        if isinstance(n, ast.Attribute) and n.attr == "value" and isinstance(n.value, ast.Name) and n.value.id in params:
            if not _under_escape(n, e):
                return True
        if isinstance(n, ast.Name) and n.id in tainted and not _under_escape(n, e):
            return True
    return False


def _under_escape(node, root):
    p = getattr(node, "_parent", None)
    while p is not None:
        if isinstance(p, ast.Call) and dotted(p.func) == "re.escape":
            return True
        if p is root:
            break
        p = getattr(p, "_parent", None)
    return False


RE_FUNCS = {"match", "search", "fullmatch", "compile", "sub", "subn", "split", "findall", "finditer"}


@rule(
    "C03.regex",
    props=("C03", "C04"),
    floor=2,
    family="DEP",
    desc="no caller-supplied string reaches the *pattern* argument of a regular-expression function unless "
    "through re.escape (metacharacters would change the meaning or raise re.error)",
)
def c03_regex(R):
    tree = R.tree
    m = tree.mod(CSTR)
    n_funcs = 0
    for q, fn in m.functions.items():
        n_funcs += 1
        params, tainted = _taints(fn)
        used_re = False
        for c in (x for x in walk_no_nested(fn) if isinstance(x, ast.Call)):
            d = dotted(c.func) or ""
            if d.startswith("re.") and d.split(".")[1] in RE_FUNCS and c.args:
                used_re = True
                pat = c.args[0]
                R.check(
                    not _is_tainted(pat, params, tainted),
                    m,
                    c,
                    f"{q}: regex pattern does not contain caller data",
                    f"{q}: the regular expression `{norm(pat)}` is built from the caller's string: '.' matches any "
                    f"character, '(' raises re.error, ... so the folded result differs from string semantics",
                )
        if not used_re:
            R.ok(m, fn, f"{q}: no regular expressions", nontrivial=False)
    R.need(n_funcs >= 10, "concrete string handlers not found")


@rule(
    "C03.handlers",
    props=("C03",),
    floor=20,
    family="SIB",
    desc="every string operation has a concrete and a Z3 handler of the same arity as its declaration; where "
    "the concrete backend falls back to a Python operator, the value class defines that operator itself "
    "(object.__eq__ compares identity)",
)
def c03_handlers(R):
    tree = R.tree
    reg = registry(tree)
    conc = dispatch(tree, "concrete")
    z3d = dispatch(tree, "z3")
    names = reg.ops_by_name()
    m = tree.mod(CSTR)
    sv = tree.cls(CSTR, "StringV")
    own = util.methods_of(sv)
    for op in STRING_OPS + ["StrIsDigit"]:
        if op in NOT_IN_PROPERTY:
            R.ok(m, sv, f"{op}: {NOT_IN_PROPERTY[op]}", nontrivial=False)
            continue
        R.need(op in names, f"string op {op} is not declared")
        decl = names[op][0]
        arity = None if isinstance(decl.arg_types, str) else len(decl.arg_types)
        for be, d in (("concrete", conc), ("z3", z3d)):
            h = d.handler(op)
            R.check(
                h.kind in ("func", "method") and h.fn is not None,
                tree.mod(decl.path),
                decl.node,
                f"{op} has a {be} handler",
                f"string op {op} has no {be} handler (dispatch: {h.kind})",
                construct=f"{op}: {be} handler {h.kind}",
            )
            if h.fn is None:
                continue
            ps = [p for p in positional_params(h.fn) if p != "self"]
            if arity is None:
                # declared with a bare type (any number of operands of that type): every well-typed use has at
                # least one operand, so any handler arity >= 1 or *args serves
                R.check(h.fn.args.vararg is not None or len(ps) >= 1, h.fn._module, h.fn,
                        f"{op} ({be}) accepts the operands its declaration admits",
                        f"{op}'s {be} handler takes no operands")
            else:
                R.check(
                    len(ps) == arity and h.fn.args.vararg is None,
                    h.fn._module,
                    h.fn,
                    f"{op}: {be} handler takes {arity} arguments",
                    f"{op} is declared with {arity} arguments but its {be} handler takes {len(ps)}"
                    f"{' + *args' if h.fn.args.vararg else ''}",
                )
    # equality on strings: the op is __eq__/__ne__ (shared with BV/Bool) -> operator fallback in the concrete backend
    for dn in ("__eq__", "__ne__"):
        d_, _ = reg.resolve("String", dn)
        R.need(d_ is not None and d_.name == dn, f"String.{dn} binding not found")
        h = conc.handler(dn)
        if h.kind == "opfallback":
            R.check(
                dn in own,
                m,
                sv,
                f"StringV defines {dn} by value",
                f"String {dn} folds through Python's operator.{dn} on StringV objects, but StringV does not define "
                f"{dn}: object identity is compared, so two equal strings (e.g. differing only in annotations) fold "
                f"to {'False' if dn == '__eq__' else 'True'}",
                construct=f"StringV lacks {dn}",
            )
            if dn in own:
                fn = own[dn]
                rets = [
                    r.value
                    for r in walk_no_nested(fn)
                    if isinstance(r, ast.Return) and r.value is not None and ast.unparse(r.value) != "NotImplemented"
                ]
                txt = ast.unparse(rets[-1]) if rets else ""
                R.check(
                    ".value" in txt and ("==" in txt if dn == "__eq__" else "!=" in txt),
                    m,
                    fn,
                    f"StringV.{dn} compares the string values",
                    f"StringV.{dn} returns `{txt}`",
                )


@rule(
    "C03.tables",
    props=("C03",),
    floor=16,
    family="TAB",
    desc="each string op's two translations against the reference: concrete - needle `in` haystack, first "
    "occurrence replaced, length at 64 bits, slice [start : start+count], join in order, -1 at 64 bits on failure; "
    "Z3 - the z3 string function of that meaning with every operand in the position that function expects",
)
def c03_tables(R):
    tree = R.tree
    conc = dispatch(tree, "concrete")
    z3d = dispatch(tree, "z3")
    m = tree.mod(CSTR)
    mz = tree.mod(Z3)

    def P(fn):
        return [p for p in positional_params(fn) if p != "self"]

    # ---- concrete
    fn = util.resolve_locals(conc.handler("StrContains").fn)
    ps = P(fn)
    ret = next(r.value for r in walk_no_nested(fn) if isinstance(r, ast.Return))
    R.check(
        isinstance(ret, ast.Compare) and isinstance(ret.ops[0], ast.In)
        and ast.unparse(ret.left) == f"{ps[1]}.value" and ast.unparse(ret.comparators[0]) == f"{ps[0]}.value",
        m, fn, "StrContains(s, sub): sub in s", f"concrete StrContains returns `{norm(ret)}`; expected `{ps[1]}.value in {ps[0]}.value`",
    )
    fn = util.resolve_locals(conc.handler("StrReplace").fn)
    ps = P(fn)
    calls = [c for c in ast.walk(fn) if isinstance(c, ast.Call) and isinstance(c.func, ast.Attribute) and c.func.attr == "replace"]
    ok = (
        len(calls) == 1
        and ast.unparse(calls[0].func.value) == f"{ps[0]}.value"
        and [ast.unparse(a) for a in calls[0].args] == [f"{ps[1]}.value", f"{ps[2]}.value", "1"]
    )
    R.check(ok, m, fn, "StrReplace(s, old, new): first occurrence only",
            f"concrete StrReplace computes `{norm(calls[0]) if calls else None}`; expected {ps[0]}.value.replace({ps[1]}.value, {ps[2]}.value, 1)")
    fn = util.resolve_locals(conc.handler("StrLen").fn)
    ps = P(fn)
    ret = next(r.value for r in walk_no_nested(fn) if isinstance(r, ast.Return))
    R.check(ast.unparse(ret) == f"BVV(len({ps[0]}.value), 64)", m, fn, "StrLen: len at 64 bits", f"concrete StrLen returns `{norm(ret)}`")
    fn = util.resolve_locals(conc.handler("StrSubstr").fn)
    ps = P(fn)
    subs = [n for n in ast.walk(fn) if isinstance(n, ast.Subscript) and isinstance(n.slice, ast.Slice)]
    ok = (
        len(subs) == 1
        and ast.unparse(subs[0].value) == f"{ps[2]}.value"
        and ast.unparse(subs[0].slice.lower) == f"{ps[0]}.value"
        and ast.unparse(subs[0].slice.upper) in (f"{ps[0]}.value + {ps[1]}.value", f"{ps[1]}.value + {ps[0]}.value")
        and subs[0].slice.step is None
    )
    R.check(ok, m, fn, "StrSubstr(start, count, s): s[start : start + count]",
            f"concrete StrSubstr slices `{norm(subs[0]) if subs else None}`")
    fn = util.resolve_locals(conc.handler("StrConcat").fn)
    joins = [c for c in ast.walk(fn) if isinstance(c, ast.Call) and isinstance(c.func, ast.Attribute) and c.func.attr == "join"]
    ok = len(joins) == 1 and isinstance(joins[0].func.value, ast.Constant) and joins[0].func.value.value == "" and "reversed" not in ast.unparse(joins[0]) and "[::-1]" not in ast.unparse(joins[0])
    R.check(ok, m, fn, "StrConcat: ''.join in argument order", f"concrete StrConcat computes `{norm(joins[0]) if joins else None}`")
    for op in ("StrIndexOf", "StrToInt"):
        fn = util.resolve_locals(conc.handler(op).fn)
        fails = [r.value for r in walk_no_nested(fn) if isinstance(r, ast.Return) and r.value is not None and "-1" in ast.unparse(r.value)]
        R.check(
            fails and all(ast.unparse(f) == "BVV(-1, 64)" for f in fails),
            m, fn, f"{op}: failure is -1 at 64 bits", f"concrete {op}: failure value is {[norm(f) for f in fails]}",
        )
    fn = util.resolve_locals(conc.handler("StrIndexOf").fn)
    ps = P(fn)
    idx = [c for c in ast.walk(fn) if isinstance(c, ast.Call) and isinstance(c.func, ast.Attribute) and c.func.attr in ("index", "find")]
    R.check(
        len(idx) == 1 and util.depends_on(idx[0].func.value, {ps[0]}, fn) and util.depends_on(idx[0].args[0], {ps[1]}, fn)
        and not util.depends_on(idx[0].args[0], {ps[0]}, fn),
        m, fn, "StrIndexOf(s, pat, start): searches pat inside s",
        f"concrete StrIndexOf searches `{norm(idx[0]) if idx else None}`",
    )
    fn = util.resolve_locals(conc.handler("IntToStr").fn)
    ps = P(fn)
    ret = next(r.value for r in walk_no_nested(fn) if isinstance(r, ast.Return))
    # decimal text of the unsigned value: built with str() only (no hex / oct / bin / format specifications), from the
    # operand's value, wrapped in StringV - whether in one piece or in chunks
    txt = ast.unparse(fn)
    ok = (
        isinstance(ret, ast.Call)
        and (dotted(ret.func) or "").split(".")[-1] == "StringV"
        and util.depends_on(ret, {ps[0]}, fn)
        and f"{ps[0]}.value" in txt
        and "str(" in txt
        and not any(bad in txt for bad in ("hex(", "oct(", "bin(", "format(", ":x", ":b", ":o", "%x", "%o", "signed"))
    )
    R.check(ok, m, fn, "IntToStr: decimal of the unsigned value", f"concrete IntToStr returns `{norm(ret)[:80]}`, not the decimal text of the operand's unsigned value")
    for op, meth in (("StrPrefixOf", "startswith"), ("StrSuffixOf", "endswith")):
        fn = util.resolve_locals(conc.handler(op).fn)
        ps = P(fn)
        calls = [c for c in ast.walk(fn) if isinstance(c, ast.Call) and isinstance(c.func, ast.Attribute) and c.func.attr == meth]
        rex = [c for c in ast.walk(fn) if isinstance(c, ast.Call) and (dotted(c.func) or "").startswith("re.")]
        if calls:
            R.check(
                ast.unparse(calls[0].func.value) == f"{ps[1]}.value" and ast.unparse(calls[0].args[0]) == f"{ps[0]}.value",
                m, fn, f"{op}(x, s): s.{meth}(x)", f"concrete {op} computes `{norm(calls[0])}`",
            )
        elif rex:
            # regular-expression form: C03.regex judges the pattern; here only the subject
            R.check(
                util.depends_on(rex[0].args[1], {ps[1]}, fn),
                m, fn, f"{op}(x, s): matched against s", f"concrete {op} matches against `{norm(rex[0].args[1])}`",
            )
        else:
            R.bad(m, fn, f"concrete {op} uses neither str.{meth} nor a regular expression")
    # ---- z3: argument positions (indices into the op's declared parameters)
    want = {
        "StrSubstr": ("z3.SubString", [2, 0, 1]),
        "StrReplace": ("z3.Replace", [0, 1, 2]),
        "StrContains": ("z3.Contains", [0, 1]),
        "StrPrefixOf": ("z3.PrefixOf", [0, 1]),
        "StrSuffixOf": ("z3.SuffixOf", [0, 1]),
        "StrIndexOf": ("z3.IndexOf", [0, 1, 2]),
        "StrLen": ("z3.Length", [0]),
        "StrToInt": ("z3.StrToInt", [0]),
        "IntToStr": ("z3.IntToStr", [0]),
    }
    for op, (ep, order) in want.items():
        fn = z3d.handler(op).fn
        ps = P(fn)
        calls = [c for c in ast.walk(fn) if isinstance(c, ast.Call) and dotted(c.func) == ep]
        if len(calls) != 1:
            R.bad(mz, fn, f"z3 translation of {op} does not call {ep} exactly once", construct=f"{fn.name}: {ep}")
            continue
        got = []
        for a in calls[0].args:
            names = [n.id for n in ast.walk(a) if isinstance(n, ast.Name) and n.id in ps]
            got.append(ps.index(names[0]) if len(names) == 1 else None)
        R.check(
            got == order,
            mz,
            fn,
            f"{op}: {ep} receives operands {order}",
            f"z3 translation of {op} calls {norm(calls[0])}: operand positions {got}, {ep} expects {order} "
            f"(indices into ({', '.join(ps)}))",
            construct=f"{fn.name}: {norm(calls[0])}",
        )
        # integers cross the boundary through BV2Int
        for a, i in zip(calls[0].args, order):
            decl = registry(tree).ops_by_name()[op][0]
            if isinstance(decl.arg_types, tuple) and decl.arg_types[i] == "BV":
                R.check(
                    isinstance(a, ast.Call) and dotted(a.func) == "z3.BV2Int",
                    mz,
                    fn,
                    f"{op}: bit-vector operand {i} converted with BV2Int",
                    f"z3 translation of {op} passes bit-vector operand {i} to {ep} without BV2Int",
                    construct=f"{fn.name}: operand {i} BV2Int",
                )


@rule(
    "C03.z3str",
    props=("C03", "C26"),
    floor=2,
    family="DEP",
    desc="no raw pass-through across the Z3 text boundary: z3.StringVal interprets \\u{..} / \\x.. escapes and "
    ".as_string() produces them, so the caller's string must not be handed to StringVal as is, and an "
    ".as_string() result must not be returned or wrapped in StringV as is",
)
def c03_z3str(R):
    tree = R.tree
    m = tree.mod(Z3)
    n = 0
    for q, fn in m.functions.items():
        for c in (x for x in walk_no_nested(fn) if isinstance(x, ast.Call)):
            d = dotted(c.func) or ""
            if d == "z3.StringVal" and c.args:
                n += 1
                a = c.args[0]
                raw = isinstance(a, (ast.Subscript, ast.Name, ast.Attribute))
                R.check(
                    not raw,
                    m,
                    c,
                    f"{q}: string constant is encoded before it reaches z3.StringVal",
                    f"{q} hands the caller's string `{norm(a)}` to z3.StringVal unchanged: Z3 reads \\u{{48}} as 'H' "
                    f"and \\x41 as 'A', so the solver sees different characters than the caller wrote",
                )
            if isinstance(c.func, ast.Attribute) and c.func.attr == "as_string":
                n += 1
                par = getattr(c, "_parent", None)
                raw = isinstance(par, ast.Return) or (
                    isinstance(par, ast.Call) and (dotted(par.func) or "").endswith("StringV") and par.args and par.args[0] is c
                )
                R.check(
                    not raw,
                    m,
                    c,
                    f"{q}: Z3's escaped text is decoded before it becomes a value",
                    f"{q} uses `{norm(c)}` as the string value without decoding Z3's escapes: a model value "
                    f"'\\x00z' comes back as the seven characters '\\u{{0}}z'",
                )
    R.need(n >= 2, "Z3 string boundary sites not found")


@rule(
    "C03.slicepos",
    props=("C03",),
    floor=1,
    family="GRD",
    desc="a search (.index / .find) in a slice `s[i:]` whose start comes from an operand is dominated by a comparison "
    "of that start with len(s): Python slices saturate, so beyond the end `''.index('')` is 0 and the handler would "
    "report a match at a position that does not exist (SMT-LIB str.indexof gives -1)",
)
def c03_slicepos(R):
    tree = R.tree
    m = tree.mod(CSTR)
    n = 0
    for q, fn in m.functions.items():
        for c in (x for x in walk_no_nested(fn) if isinstance(x, ast.Call)):
            f = c.func
            if not (isinstance(f, ast.Attribute) and f.attr in ("index", "find", "rindex", "rfind")):
                continue
            base = f.value
            if not (isinstance(base, ast.Subscript) and isinstance(base.slice, ast.Slice) and base.slice.lower is not None):
                continue
            start = ast.unparse(base.slice.lower)
            subject = ast.unparse(base.value)
            n += 1
            ok = False
            for t, pol in guards.guards_of(c):
                txt = ast.unparse(t)
                if isinstance(t, ast.Compare) and start in txt and f"len({subject})" in txt:
                    ok = True
            R.check(
                ok,
                m,
                c,
                f"{q}: start position is compared with the length before searching the slice",
                f"{q} searches `{norm(c)}` without first comparing `{start}` with len({subject}): for a start beyond the "
                f"end the slice is '' and an empty needle 'matches' at offset 0, so the folded result is the start "
                f"position where the solver answers -1",
            )
    R.need(n >= 1, "no search in an operand-positioned slice found (anchor vanished)")


# the escape forms Z3's string-literal reader interprets (SMT-LIB 2.6 strings theory: \ud3d2d1d0 and \u{d..})
_Z3_ESCAPE_WITNESSES = ("\\u0041", "\\u{41}", "\\u{1f600}", "\\ud83d", "\\u{0}")


def _module_regex(m, name):
    for st in m.tree.body:
        if isinstance(st, ast.Assign) and any(isinstance(t, ast.Name) and t.id == name for t in st.targets):
            v = st.value
            if isinstance(v, ast.Call) and (dotted(v.func) or "") in ("re.compile", "compile") and v.args:
                p = v.args[0]
                if isinstance(p, ast.Constant) and isinstance(p.value, str):
                    return p.value
    return None


@rule(
    "C03.escape",
    props=("C03", "C26"),
    floor=1,
    family="TAB",
    desc="the encoder applied at the Z3 string boundary neutralises every backslash Z3 would read as the start of an "
    "escape: each return of _z3_string_encode rewrites all backslashes, or rewrites with a pattern whose language "
    "(a literal of the module) covers both escape forms Z3 reads (\\uXXXX and \\u{X..})",
)
def c03_escape(R):
    import re as _re
    import re._parser as _rp

    tree = R.tree
    m = tree.mod(Z3)
    fn = m.functions.get("_z3_string_encode")
    R.need(fn is not None, "_z3_string_encode not found (anchor vanished)")
    params = positional_params(fn)
    R.need(len(params) == 1, "_z3_string_encode no longer takes exactly the string")
    s = params[0]
    rets = [x for x in walk_no_nested(fn) if isinstance(x, ast.Return)]
    R.need(rets, "_z3_string_encode has no return")

    def bare_backslash(pat):
        try:
            parsed = list(_rp.parse(pat))
        except Exception:
            return False
        return len(parsed) == 1 and str(parsed[0][0]) == "LITERAL" and parsed[0][1] == 92

    for r in rets:
        v = r.value
        if isinstance(v, ast.Name) and v.id == s:
            facts = [(ast.unparse(t), pol) for t, pol in guards.guards_of(r)]
            ok = any(t in (f"'\\\\' not in {s}", f'"\\\\" not in {s}') and pol for t, pol in facts) or any(
                t in (f"'\\\\' in {s}",) and not pol for t, pol in facts
            )
            R.check(
                ok,
                m,
                r,
                "the string is returned unchanged only when it contains no backslash",
                f"_z3_string_encode returns the caller's string unchanged under {facts}: a backslash sequence in it "
                f"is interpreted by Z3",
            )
            continue
        pat = None
        if isinstance(v, ast.Call) and isinstance(v.func, ast.Attribute) and v.func.attr == "replace" and len(v.args) == 2:
            a = v.args[0]
            if isinstance(a, ast.Constant) and a.value == "\\" and norm(v.func.value) == s:
                b = v.args[1]
                good = isinstance(b, ast.Constant) and isinstance(b.value, str) and _re.fullmatch(r"\\u\{0*5[cC]\}", b.value)
                R.check(
                    bool(good),
                    m,
                    r,
                    "every backslash is rewritten to the escape of the backslash itself",
                    f"_z3_string_encode replaces a backslash by `{norm(b)}`, which Z3 does not read back as one backslash",
                )
                continue
        if isinstance(v, ast.Call) and isinstance(v.func, ast.Attribute) and v.func.attr == "sub":
            base = dotted(v.func.value) or ""
            if base == "re" and v.args and isinstance(v.args[0], ast.Constant):
                pat = v.args[0].value
            elif isinstance(v.func.value, ast.Name):
                pat = _module_regex(m, v.func.value.id)
        R.need(pat is not None, f"_z3_string_encode returns `{norm(v)}`: not an escape rewrite this rule can interpret")
        if bare_backslash(pat):
            R.ok(m, r, "every backslash is rewritten (pattern is the bare backslash)")
            continue
        cp = _re.compile(pat)
        missed = [w for w in _Z3_ESCAPE_WITNESSES if not cp.match(w)]
        R.check(
            not missed,
            m,
            r,
            "the rewrite pattern covers every escape form Z3 reads",
            f"_z3_string_encode only rewrites text matching {pat!r}; Z3 also reads {missed} as escapes, so a "
            f"caller's string containing such a sequence reaches the solver as different characters",
        )


def _parse_contexts(m):
    """(label, fn, params, tainted, inherited facts, root handler): every module function as a handler, plus - to a
    depth of three calls - every module function in the role of a helper that is handed a caller's string."""
    out = []
    work = []
    for q, fn in m.functions.items():
        params, tainted = _taints(fn)
        work.append((q, fn, params, tainted, [], q, 0))
    while work:
        q, fn, params, tainted, inherited, root, depth = work.pop(0)
        out.append((q, fn, params, tainted, inherited, root))
        if depth >= 3:
            continue
        for c in (x for x in walk_no_nested(fn) if isinstance(x, ast.Call)):
            if not (isinstance(c.func, ast.Name) and c.func.id in m.functions and c.func.id != q):
                continue
            g = m.functions[c.func.id]
            gps = positional_params(g)
            handed = {gps[i] for i, a in enumerate(c.args) if i < len(gps) and not isinstance(a, ast.Starred) and _is_tainted(a, params, tainted)}
            handed |= {k.arg for k in c.keywords if k.arg in gps and _is_tainted(k.value, params, tainted)}
            if not handed:
                continue
            facts = inherited + [(ast.unparse(t), pol) for t, pol in guards.guards_of(c)]
            gparams, gt = _taints(g)
            gt = set(gt) | handed
            changed = True
            while changed:
                changed = False
                for st in walk_no_nested(g):
                    if isinstance(st, ast.Assign) and isinstance(st.targets[0], ast.Name) and st.targets[0].id not in gt and _is_tainted(st.value, gparams, gt):
                        gt.add(st.targets[0].id)
                        changed = True
            work.append((f"{q} -> {c.func.id}", g, gparams, gt, facts, root, depth + 1))
    return out


@rule(
    "C03.parse",
    props=("C03",),
    floor=1,
    family="GRD",
    desc="int(<string>) in a concrete string handler is dominated by an ASCII-digit check of that string "
    "(Python's int() grammar - sign, whitespace, underscores, non-ASCII digits - is a strict superset of SMT-LIB's)",
)
def c03_parse(R):
    tree = R.tree
    m = tree.mod(CSTR)
    n = 0
    contexts = _parse_contexts(m)
    for q, fn, params, tainted, inherited, _root in contexts:
        for c in (x for x in walk_no_nested(fn) if isinstance(x, ast.Call)):
            if dotted(c.func) == "int" and c.args and _is_tainted(c.args[0], params, tainted):
                n += 1
                subject = ast.unparse(c.args[0])
                facts = list(inherited)
                for t, pol in guards.guards_of(c):
                    facts.append((ast.unparse(t), pol))
                checks_digits = any(("isdigit()" in t or "isdecimal()" in t or "fullmatch" in t or "[0-9]" in t) and pol for t, pol in facts)
                checks_ascii = any(("isascii()" in t or "[0-9]" in t or "fullmatch" in t) and pol for t, pol in facts)
                R.check(
                    checks_digits and checks_ascii,
                    m,
                    c,
                    f"{q}: int() only on an ASCII digit string",
                    f"{q} parses `{subject}` with Python's int() without first requiring ASCII digits only: "
                    f"'-5', ' 5', '5_0' and non-ASCII digits are accepted where SMT-LIB str.to_int gives -1",
                )
    R.need(n >= 1, "no int() of a caller string found (anchor vanished)")
    # Python refuses to convert more than sys.get_int_max_str_digits() digits at once (4300 by default): a number of
    # caller-chosen length is converted in pieces - int() of a bounded slice, str() of a remainder
    for q, fn, params, tainted, _inh, root in contexts:
        if root not in ("StrToInt", "IntToStr"):
            continue
        for c in (x for x in walk_no_nested(fn) if isinstance(x, ast.Call)):
            if dotted(c.func) == "int" and c.args and _is_tainted(c.args[0], params, tainted):
                a = c.args[0]
                srcs = [a]
                if isinstance(a, ast.Name):
                    srcs = [st.value for st in walk_no_nested(fn) if isinstance(st, ast.Assign) and any(isinstance(t, ast.Name) and t.id == a.id for t in st.targets)]
                bounded = bool(srcs) and all(isinstance(v, ast.Subscript) and isinstance(v.slice, ast.Slice) and v.slice.upper is not None for v in srcs)
                R.check(
                    bounded,
                    m,
                    c,
                    f"{q}: int() of a bounded slice",
                    f"{q} converts `{ast.unparse(a)}`, a string of caller-chosen length, with one int(): beyond 4300 digits Python raises "
                    f"ValueError, out of the AST constructor, where the solver evaluates the expression",
                    construct=f"{q}: int() of a string of unbounded length",
                )
            if dotted(c.func) == "str" and c.args and root == "IntToStr":
                a = c.args[0]
                whole = ast.unparse(a).endswith(".value")
                R.check(
                    not whole,
                    m,
                    c,
                    "IntToStr: str() of a bounded piece",
                    "IntToStr converts the whole value with one str(): beyond 4300 digits Python raises ValueError where the solver "
                    "evaluates the expression",
                    construct="IntToStr: str() of a number of unbounded length",
                )
