"""C15.unsatflag - constraints of a composite solver that live in no child.

SolverComposite keeps a concrete False among its constraints in the flag `_unsat` only: no child solver holds it.
Every operation that derives *solvers handed to the caller* from the children of an operand (split, merge) therefore has
to look at that operand's flag as well - otherwise the derived solvers have models the operand does not have.  The
rule looks at the operations of the frontend interface that hand out new solvers (split, merge, combine - with their
private helpers inlined) and demands a read of `<operand>._unsat` for every operand whose children are read.
"""

from __future__ import annotations

import ast

from .. import util
from ..core import norm, walk_no_nested
from ..report import rule

CF = "claripy/frontend/composite_frontend.py"

# the operations of the frontend interface that hand new solvers to the caller
_DERIVING = ("split", "merge", "combine", "unsat_core")  # unsat_core: the core is collected from the children


@rule(
    "C15.unsatflag",
    props=("C15", "C12"),
    floor=2,
    family="WHO",
    desc="SolverComposite keeps a concrete False in the `_unsat` flag only, in no child: every operation that hands the "
    "caller solvers derived from an operand's children (split, merge) also reads that operand's flag",
)
def c15_unsatflag(R):
    tree = R.tree
    m = tree.mod(CF)
    cls = tree.cls(CF, "SolverComposite") if "SolverComposite" in m.classes else tree.cls(CF, "CompositeFrontend")
    n = 0
    for name, raw in util.methods_of(cls).items():
        if name not in _DERIVING:
            continue
        fn = tree.func_inlined(CF, f"{cls.name}.{name}")
        readers = set()
        for x in walk_no_nested(fn):
            if isinstance(x, ast.Attribute) and x.attr in ("_solver_list", "_solvers") and isinstance(x.ctx, ast.Load) and isinstance(x.value, ast.Name):
                readers.add(x.value.id)
        # comprehension / loop variables nested in lambdas and comprehensions
        for x in ast.walk(fn):
            if isinstance(x, ast.Attribute) and x.attr in ("_solver_list", "_solvers") and isinstance(x.ctx, ast.Load) and isinstance(x.value, ast.Name):
                readers.add(x.value.id)
        if not readers:
            continue
        n += 1
        flags = {x.value.id for x in ast.walk(fn) if isinstance(x, ast.Attribute) and x.attr == "_unsat" and isinstance(x.ctx, ast.Load) and isinstance(x.value, ast.Name)}
        # ... or in a private helper that is handed the operand (one that was not inlined: several exits)
        helpers = util.methods_of(cls)
        for c in ast.walk(fn):
            if isinstance(c, ast.Call) and isinstance(c.func, ast.Attribute) and isinstance(c.func.value, ast.Name) and c.func.value.id == "self" and c.func.attr in helpers and c.func.attr != name:
                h = helpers[c.func.attr]
                hps = [a.arg for a in h.args.args]
                read_in_h = {x.value.id for x in ast.walk(h) if isinstance(x, ast.Attribute) and x.attr == "_unsat" and isinstance(x.ctx, ast.Load) and isinstance(x.value, ast.Name)}
                rebound = {t.id for st in ast.walk(h) if isinstance(st, ast.Assign) for t in st.targets if isinstance(t, ast.Name)}
                if hps and hps[0] in read_in_h:
                    flags.add("self")
                for hp, arg in zip(hps[1:], c.args):
                    if hp in read_in_h - rebound and isinstance(arg, ast.Name):
                        flags.add(arg.id)
        # `merged = self.blank_copy()` style locals that the method fills itself are not operands
        own = {st.targets[0].id for st in walk_no_nested(fn) if isinstance(st, ast.Assign) and len(st.targets) == 1 and isinstance(st.targets[0], ast.Name) and isinstance(st.value, ast.Call) and isinstance(st.value.func, ast.Attribute) and st.value.func.attr in ("blank_copy", "branch", "copy")}
        # operands are `self` and what loop variables range over; names do not matter (helpers are inlined with their
        # locals renamed apart): a reader is covered when the flag is read on a variable that ranges over the same
        # source (`self`, or a collection built from the same parameter)
        params = {a.arg for a in fn.args.args}
        ranges = {}
        for x in ast.walk(fn):
            if isinstance(x, (ast.For, ast.comprehension)):
                srcs = {n_.id for n_ in ast.walk(x.iter) if isinstance(n_, ast.Name) and n_.id in params}
                for t_ in ast.walk(x.target):
                    if isinstance(t_, ast.Name):
                        ranges.setdefault(t_.id, set()).update(srcs)

        def sources(v):
            return {v} if v in params else ranges.get(v, set())

        flag_sources = set().union(*(sources(v) for v in flags)) if flags else set()
        missing = sorted(v for v in readers - own if sources(v) and not sources(v) <= flag_sources)
        R.check(
            not missing,
            m,
            raw,
            f"{name}: reads the flag of every operand whose children it reads",
            f"{cls.name}.{name} derives solvers from the children of {missing} without reading {' / '.join(x + '._unsat' for x in missing)}: "
            f"a concrete False added to that operand lives in the flag only, so the derived solvers have models the operand does "
            f"not have (split() of an unsatisfiable composite returned satisfiable parts; merge() kept the condition of an "
            f"unsatisfiable operand feasible)",
            construct=f"{name}: derives solvers from children without the unsat flag",
        )
    R.need(n >= 2, f"only {n} deriving operations found (split, merge expected)")


# fields that __setstate__ may rebuild blank: a blank value means "nothing known", every reader falls back to the solver
_BLANK_MEANS_UNKNOWN = {
    ("CompositeFrontend", "_owned_solvers"): "owning nothing is the safe state: every child is copied (claimed) before it is written to",
    ("FullFrontend", "_to_add"): "no native solver exists after unpickling (fresh thread-local): every constraint is added again from `constraints` on first use",
    ("FullFrontend", "_tls"): "fresh per-thread slot; the native solver is rebuilt on demand",
    ("CompositedCacheMixin", "_merged_solvers"): "cache of merged children, rebuilt on demand",
    ("ModelCache", "replacements"): "memo of evaluated expressions",
    ("ModelCache", "constraint_only_replacements"): "memo of evaluated expressions",
    ("ModelCacheMixin", "_models"): "no cached model: the next query asks the solver",
    ("ModelCacheMixin", "_exhausted"): "False = not known to be exhausted",
    ("ModelCacheMixin", "_eval_exhausted"): "no mark: the next query asks the solver",
    ("ModelCacheMixin", "_max_exhausted"): "no mark",
    ("ModelCacheMixin", "_min_exhausted"): "no mark",
    ("ModelCacheMixin", "_max_signed_exhausted"): "no mark",
    ("ModelCacheMixin", "_min_signed_exhausted"): "no mark",
}


@rule(
    "FE.fields.unpickleblank",
    props=("C18", "C12"),
    floor=8,
    family="SIB",
    desc="a field that __setstate__ rebuilds without reading the pickled state or the restored fields (an empty container, "
    "a constant) is one whose blank value means 'nothing known' to every reader; an obligation list such as the "
    "composite's children-still-to-check is rebuilt from the restored children",
)
def fe_fields_unpickleblank(R):
    from .fe_state import _field_classes

    tree = R.tree
    n = 0
    for m, c, fields, ms in _field_classes(tree):
        ss = ms.get("__setstate__")
        if ss is None:
            continue
        params = {a.arg for a in ss.args.args} - {"self"}
        # locals unpacked from the state
        tainted = set(params)
        for _ in range(3):
            for st in walk_no_nested(ss):
                if isinstance(st, ast.Assign) and any(isinstance(x, ast.Name) and x.id in tainted for x in ast.walk(st.value)):
                    for t in st.targets:
                        for x in ast.walk(t):
                            if isinstance(x, ast.Name):
                                tainted.add(x.id)
        for a, kind, node, val in util.attr_writes(ss, "self"):
            if kind != "assign" or val is None:
                continue
            from_state = any(isinstance(x, ast.Name) and x.id in tainted for x in ast.walk(val))
            from_self = any(isinstance(x, ast.Attribute) and isinstance(x.value, ast.Name) and x.value.id == "self" for x in ast.walk(val))
            from_elsewhere = any(isinstance(x, ast.Call) and not util.is_fresh_container(x) for x in ast.walk(val)) and not util.is_fresh_container(val)
            if from_state or from_self or from_elsewhere:
                continue
            n += 1
            why = _BLANK_MEANS_UNKNOWN.get((c.name, a))
            R.check(
                why is not None,
                m,
                node,
                f"{c.name}.{a} rebuilt blank: {why}",
                f"{c.name}.__setstate__ rebuilds self.{a} as `{ast.unparse(val)[:50]}` without reading the pickled state or the "
                f"restored fields, and a blank {a} is not classified as 'nothing known': an unpickled object then claims something "
                f"the pickled one did not (a SolverComposite pickled before its first query had no child left to check and "
                f"answered satisfiable() == True for `0 <s x` and `x <s 0`)",
                construct=f"{c.name}.{a} rebuilt blank by __setstate__",
            )
    R.need(n >= 8, f"only {n} blank rebuilds found")


@rule(
    "C15.mergekeep",
    props=("C15", "C12"),
    floor=1,
    family="GRD",
    desc="SolverComposite.merge files the merged remainder (the Or over the merge conditions) with _store_child only "
    "under a fact that it shares no variable with the children already filed in the merged solver; otherwise it is added "
    "the ordinary way, which combines the children concerned - _store_child replaces whatever is filed under a variable",
)
def c15_mergekeep(R):
    import re

    from .. import guards

    tree = R.tree
    m = tree.mod(CF)
    cls = tree.cls(CF, "SolverComposite") if "SolverComposite" in m.classes else tree.cls(CF, "CompositeFrontend")
    fn = tree.func_inlined(CF, f"{cls.name}.merge", exclude=("_store_child", "_shared_solvers"))
    own = {st.targets[0].id for st in walk_no_nested(fn) if isinstance(st, ast.Assign) and len(st.targets) == 1 and isinstance(st.targets[0], ast.Name) and isinstance(st.value, ast.Call) and isinstance(st.value.func, ast.Attribute) and st.value.func.attr == "blank_copy"}
    merged_results = set()
    for st in walk_no_nested(fn):
        if isinstance(st, ast.Assign) and isinstance(st.value, ast.Call) and isinstance(st.value.func, ast.Attribute) and st.value.func.attr == "merge":
            for t in st.targets:
                for x in ast.walk(t):
                    if isinstance(x, ast.Name):
                        merged_results.add(x.id)
    n = 0
    for c in walk_no_nested(fn):
        if not (isinstance(c, ast.Call) and isinstance(c.func, ast.Attribute) and c.func.attr == "_store_child" and isinstance(c.func.value, ast.Name) and c.func.value.id in own):
            continue
        if not (c.args and isinstance(c.args[0], ast.Name) and c.args[0].id in merged_results):
            continue
        n += 1
        facts = [re.sub(r"\s+", " ", f) for f in guards.holds(c)]
        ok = any((f.startswith("not ") and "_solvers" in f and ".variables" in f) or "isdisjoint" in f for f in facts)
        R.check(
            ok,
            m,
            c,
            "merged remainder stored only where it overlaps no filed child",
            f"{cls.name}.merge stores the merged remainder `{c.args[0].id}` with _store_child under {facts[-2:] or ['no condition']}: "
            f"_store_child files it under every variable it mentions and replaces the common child filed there - with a merge "
            f"condition over a variable of a common child (a.add(m <u 2); ...; a.merge([b], [m != 0, m == 0])) that child's "
            f"constraints are lost and max(m) is 255",
            construct="merge: merged remainder filed over existing children",
        )
    if n == 0:
        R.ok(m, fn, "merge: the merged remainder is not filed with _store_child")


@rule(
    "C09.compsimpl",
    props=("C09", "C12"),
    floor=1,
    family="PAIR",
    desc="SolverComposite.simplify rebuilds its constraint list from its children: every way through one round of the "
    "loop over the children (the early `continue` for an already simplified child included) adds that child's constraints "
    "to the list that becomes self.constraints",
)
def c09_compsimpl(R):
    tree = R.tree
    m = tree.mod(CF)
    cls = tree.cls(CF, "SolverComposite") if "SolverComposite" in m.classes else tree.cls(CF, "CompositeFrontend")
    fn = tree.func_inlined(CF, f"{cls.name}.simplify", exclude=("_split_child", "_store_child", "_claim"))
    accs = {ast.unparse(st.value) for st in walk_no_nested(fn) if isinstance(st, ast.Assign) and len(st.targets) == 1 and ast.unparse(st.targets[0]) == "self.constraints" and isinstance(st.value, ast.Name)}
    R.need(len(accs) == 1, "simplify: `self.constraints = <list>` not found")
    acc = next(iter(accs))
    loops = [st for st in walk_no_nested(fn) if isinstance(st, ast.For) and "_solver_list" in ast.unparse(st.iter) and isinstance(st.target, ast.Name)]
    R.need(len(loops) == 1, "simplify: loop over the children not found")
    loop = loops[0]
    v = loop.target.id

    def feeds(st):
        if isinstance(st, ast.AugAssign) and ast.unparse(st.target) == acc and isinstance(st.op, ast.Add):
            return any(isinstance(x, ast.Name) and x.id == v for x in ast.walk(st.value))
        if isinstance(st, ast.Expr) and isinstance(st.value, ast.Call) and isinstance(st.value.func, ast.Attribute) and st.value.func.attr in ("extend", "append") and ast.unparse(st.value.func.value) == acc:
            return any(isinstance(x, ast.Name) and x.id == v for a in st.value.args for x in ast.walk(a))
        return False

    def before(node):
        """statements that certainly ran before `node` in this round: earlier siblings, up to the loop body"""
        out = []
        child, par = node, getattr(node, "_parent", None)
        while par is not None:
            for fld in ("body", "orelse"):
                b = getattr(par, fld, None)
                if isinstance(b, list) and child in b:
                    out += b[: b.index(child)]
            if par is loop:
                break
            child, par = par, getattr(par, "_parent", None)
        return out

    n = 0
    exits = [st for st in ast.walk(loop) if isinstance(st, ast.Continue) and not any(isinstance(p, (ast.For, ast.While)) and p is not loop for p in _ancestors(st, loop))]
    for ex in exits:
        n += 1
        R.check(
            any(feeds(st) for st in before(ex)),
            m,
            ex,
            "a child that is skipped still contributes its constraints",
            f"{cls.name}.simplify leaves a round of the loop over the children with `continue` without adding `{v}.constraints` to "
            f"`{acc}`: self.constraints loses that child's constraints (solving through the children stays right, combine(), "
            f"pickling and everything built from .constraints is wrong - after simplify() the set shrank to one group)",
            construct="simplify: skipped child not carried over",
        )
    n += 1
    R.check(
        any(feeds(st) for st in loop.body),
        m,
        loop,
        "a simplified child contributes its constraints",
        f"{cls.name}.simplify does not add `{v}.constraints` to `{acc}` at the end of a round",
        construct="simplify: simplified child not carried over",
    )
    R.need(n >= 1, "simplify: nothing examined")


def _ancestors(node, stop):
    p = getattr(node, "_parent", None)
    while p is not None and p is not stop:
        yield p
        p = getattr(p, "_parent", None)


MCM_ = "claripy/frontend/mixin/model_cache_mixin.py"


@rule(
    "C15.parts",
    props=("C15", "C12"),
    floor=4,
    family="SIB",
    desc="derived composites and parts stay faithful: SolverComposite.combine reads the concrete-False flag of every "
    "operand; children enter a composite's name table through _store_child only (so that they are checked); the merged "
    "remainder is filed as a child only if it has variables; a child replaced by its parts is removed from every name; "
    "ModelCacheMixin.split adds the parent's models to what a part recorded itself instead of replacing it",
)
def c15_parts(R):
    tree = R.tree
    m = tree.mod(CF)
    cls = tree.cls(CF, "SolverComposite") if "SolverComposite" in m.classes else tree.cls(CF, "CompositeFrontend")
    ms = util.methods_of(cls)
    # (1) combine
    cb = ms.get("combine")
    if cb is None:
        R.bad(
            m,
            cls,
            f"{cls.name} inherits combine(), which re-adds the operands' constraint lists: a concrete False lives in the _unsat "
            f"flag only, so dead.combine([live]) is satisfiable",
            construct="combine: inherited, the unsat flag is not read",
        )
    else:
        ps = [a.arg for a in cb.args.args]
        flags = {ast.unparse(x.value) for x in ast.walk(cb) if isinstance(x, ast.Attribute) and x.attr == "_unsat" and isinstance(x.ctx, ast.Load)} | {
            ast.unparse(x.args[0]) for x in ast.walk(cb) if isinstance(x, ast.Call) and isinstance(x.func, ast.Name) and x.func.id == "getattr" and len(x.args) >= 2 and isinstance(x.args[1], ast.Constant) and x.args[1].value == "_unsat"
        }
        over_others = any(isinstance(c_, ast.comprehension) and ast.unparse(c_.iter) == ps[1] and any(isinstance(t, ast.Name) and t.id in flags for t in ast.walk(c_.target)) for c_ in ast.walk(cb)) or any(
            isinstance(c_, ast.For) and ast.unparse(c_.iter) == ps[1] and any(isinstance(t, ast.Name) and t.id in flags for t in ast.walk(c_.target)) for c_ in ast.walk(cb)
        )
        R.check(
            "self" in flags and over_others,
            m,
            cb,
            "combine reads the flag of self and of every other operand",
            f"{cls.name}.combine does not read the _unsat flag of {'self' if 'self' not in flags else 'the other operands'}: a concrete "
            f"False is in no constraint list, and dead.combine([live]) / live.combine([dead]) is satisfiable",
            construct="combine: reads the unsat flag of every operand",
        )
    # (2) who writes the name table
    n_w = 0
    for name, fn in ms.items():
        for st in walk_no_nested(fn):
            tgts = st.targets if isinstance(st, ast.Assign) else []
            for t in tgts:
                if isinstance(t, ast.Subscript) and isinstance(t.value, ast.Attribute) and t.value.attr == "_solvers":
                    n_w += 1
                    R.check(
                        name == "_store_child",
                        m,
                        st,
                        f"{name}: name table written through _store_child",
                        f"{cls.name}.{name} files a child with `{ast.unparse(st)[:60]}`, bypassing _store_child: the child never enters the "
                        f"set of children still to be checked, and an unsatisfiable child that all inputs of a merge share went "
                        f"unnoticed (merged.satisfiable() == True)",
                        construct=f"{name}: direct write to the name table",
                    )
    R.need(n_w >= 1, "no write to the composite's name table found")
    # (3) merged remainder with no variables
    mg = tree.func_inlined(CF, f"{cls.name}.merge", exclude=("_store_child", "_shared_solvers"))
    merged_results = {x.id for st in walk_no_nested(mg) if isinstance(st, ast.Assign) and isinstance(st.value, ast.Call) and isinstance(st.value.func, ast.Attribute) and st.value.func.attr == "merge" for t in st.targets for x in ast.walk(t) if isinstance(x, ast.Name)}
    from .. import guards as _g

    for c in walk_no_nested(mg):
        if isinstance(c, ast.Call) and isinstance(c.func, ast.Attribute) and c.func.attr == "_store_child" and c.args and isinstance(c.args[0], ast.Name) and c.args[0].id in merged_results:
            facts = [f.replace(" ", "") for f in _g.holds(c)]
            v = c.args[0].id
            R.check(
                any(f in (f"{v}.variables", f"len({v}.variables)>0", f"len({v}.variables)!=0") for f in facts),
                m,
                c,
                "the merged remainder is filed as a child only if it has variables",
                f"{cls.name}.merge files the merged remainder `{v}` with _store_child without a fact that it has variables: a remainder "
                f"that is concretely False (every alternative dead) is filed nowhere and the merged solver is unconstrained",
                construct="merge: remainder without variables filed as a child",
            )
    # (4) a split child is removed from every name
    sc = ms.get("_split_child")
    R.need(sc is not None, "_split_child not found")
    p_child = [a.arg for a in sc.args.args][1]
    dels = [d for d in ast.walk(sc) if isinstance(d, ast.Delete) and any(isinstance(t, ast.Subscript) and isinstance(t.value, ast.Attribute) and t.value.attr == "_solvers" for t in d.targets)]
    pops = [c for c in ast.walk(sc) if isinstance(c, ast.Call) and isinstance(c.func, ast.Attribute) and c.func.attr == "pop" and isinstance(c.func.value, ast.Attribute) and c.func.value.attr == "_solvers"]
    mentions = any(isinstance(x, ast.Compare) and isinstance(x.ops[0], ast.Is) and p_child in (ast.unparse(x.left), ast.unparse(x.comparators[0])) for x in ast.walk(sc))
    R.check(
        bool(dels or pops) and mentions,
        m,
        sc,
        "a child replaced by its parts is removed from every name it was filed under",
        f"{cls.name}._split_child files the parts and leaves the old child under the names no part took over (a variable that "
        f"simplification eliminated): it stays among the children next to its own parts, and split() returns parts that share "
        f"variables and repeat conjuncts",
        construct="_split_child: old child removed from the name table",
    )
    # (5) ModelCacheMixin.split
    mm = tree.mod(MCM_)
    sp = tree.func(MCM_, "ModelCacheMixin.split")
    for st in ast.walk(sp):
        if isinstance(st, ast.Assign) and any(isinstance(t, ast.Attribute) and t.attr == "_models" for t in st.targets):
            R.bad(
                mm,
                st,
                "ModelCacheMixin.split replaces the models of a part (`" + ast.unparse(st)[:60] + "`): a part that is a single `x == c` has "
                "recorded the model x = c and marked x as enumerated while it was built; with a parent that was never solved it keeps "
                "the marks and loses the model, and eval(x, 1) answers ()",
                construct="split: models of a part replaced",
            )
    R.ok(mm, sp, "ModelCacheMixin.split examined")


CFR_ = "claripy/frontend/constrained_frontend.py"


@rule(
    "C12.varsync",
    props=("C12", "C15"),
    floor=1,
    family="SIB",
    desc="`variables` of a constraint-holding frontend is the variable set of its `constraints`: a method that replaces the "
    "constraint list (simplify) brings `variables` along - a composite files its children under their variables, and a "
    "child that keeps listing a variable it no longer constrains is resurrected over the child that does",
)
def c12_varsync(R):
    tree = R.tree
    m = tree.mod(CFR_)
    cls = tree.cls(CFR_, "ConstrainedFrontend")
    n = 0
    for name, fn in util.methods_of(cls).items():
        if name in ("__init__", "_blank_copy", "_copy", "__setstate__", "__getstate__"):
            continue
        repl = [st for st in walk_no_nested(fn) if isinstance(st, ast.Assign) and any(ast.unparse(t) == "self.constraints" for t in st.targets)]
        if not repl:
            continue
        n += 1
        touches = any(
            (isinstance(st, ast.Assign) and any(ast.unparse(t) == "self.variables" for t in st.targets))
            or (isinstance(st, ast.Call) and isinstance(st.func, ast.Attribute) and ast.unparse(st.func.value) == "self.variables" and st.func.attr in ("update", "clear", "intersection_update", "difference_update"))
            for st in ast.walk(fn)
        )
        R.check(
            touches,
            m,
            repl[0],
            f"{name}: variables follow the replaced constraints",
            f"ConstrainedFrontend.{name} replaces self.constraints and leaves self.variables alone: a variable the new constraints no "
            f"longer mention stays listed. SolverComposite files a child under its variables and combines children from their "
            f"constraints, so the old child stays reachable through the stale name and is stored over the current one - "
            f"add(SGE(x & y, 4)) [always true]; simplify(); eval(x, 1); add(z >u 1); add(y >u z); add(x <u 3): eval(y, 8) is 0..7 "
            f"instead of 3..7",
            construct=f"{name}: constraints replaced, variables not recomputed",
        )
    R.need(n >= 1, "no method replaces self.constraints any more")


HYB_ = "claripy/frontend/hybrid_frontend.py"


@rule(
    "C12.namesfor",
    props=("C12",),
    floor=2,
    family="SIB",
    desc="CompositeFrontend._names_for collects, for each operand it is given, the variables of that very operand: the "
    "children a query is sent to are chosen by these names",
)
def c12_namesfor(R):
    tree = R.tree
    m = tree.mod(CF)
    cls = tree.cls(CF, "SolverComposite") if "SolverComposite" in m.classes else tree.cls(CF, "CompositeFrontend")
    fn = util.methods_of(cls).get("_names_for")
    R.need(fn is not None, "_names_for not found")
    from .. import guards as _g

    n = 0
    for c in walk_no_nested(fn):
        if not (isinstance(c, ast.Call) and isinstance(c.func, ast.Attribute) and c.func.attr in ("update", "add") and c.args):
            continue
        srcs = {ast.unparse(x.value) for x in ast.walk(c.args[0]) if isinstance(x, ast.Attribute) and x.attr == "variables"}
        if not srcs:
            continue
        tested = set()
        for t, pol in _g.guards_of(c):
            if not pol:
                continue
            for x in ast.walk(t):
                if isinstance(x, ast.Call) and isinstance(x.func, ast.Name) and x.func.id == "isinstance" and x.args:
                    tested.add(ast.unparse(x.args[0]))
                if isinstance(x, ast.Compare) and isinstance(x.ops[0], ast.IsNot):
                    tested.add(ast.unparse(x.left))
        if not tested:
            continue
        n += 1
        R.check(
            srcs <= tested,
            m,
            c,
            "names are taken from the operand that was tested",
            f"{cls.name}._names_for tests {sorted(tested)} and collects the variables of {sorted(srcs)}: solution(e, v) with a symbolic "
            f"v whose variables live in another child is then sent to a solver where v is unconstrained and answers True "
            f"(solution(x, y) with x < 5, y > 10)",
            construct="_names_for: variables of another operand than the one tested",
        )
    R.need(n >= 2, f"_names_for: only {n} guarded collections found")


@rule(
    "C12.queryvars",
    props=("C12",),
    floor=6,
    family="SIB",
    desc="every expression operand a CompositeFrontend query hands to the merged child (ms.eval(e, ..), ms.solution(e, v, ..), "
    "ms.batch_eval(exprs, ..)) is also among the operands _merged_solver_for chose that child from: an operand left out "
    "is judged in a solver that does not hold the constraints on its variables",
)
def c12_queryvars(R):
    tree = R.tree
    m = tree.mod(CF)
    cls = tree.cls(CF, "SolverComposite") if "SolverComposite" in m.classes else tree.cls(CF, "CompositeFrontend")
    n = 0
    for name, fn in sorted(util.methods_of(cls).items()):
        a = fn.args
        params = [x.arg for x in a.posonlyargs + a.args + a.kwonlyargs]
        pos = a.posonlyargs + a.args
        defaults = dict(zip([x.arg for x in pos[len(pos) - len(a.defaults):]], a.defaults))
        defaults.update({k.arg: d for k, d in zip(a.kwonlyargs, a.kw_defaults) if d is not None})
        # options, not expressions: a count, or a parameter whose default is None / a bool / a number
        scalar = {p for p, d in defaults.items() if isinstance(d, ast.Constant) and (d.value is None or isinstance(d.value, (bool, int, float)))} | {"n", "self"}
        merged = {}  # local name -> the _merged_solver_for call it was assigned from
        for st in walk_no_nested(fn):
            if isinstance(st, ast.Assign) and len(st.targets) == 1 and isinstance(st.targets[0], ast.Name):
                v = st.value
                if isinstance(v, ast.Call) and isinstance(v.func, ast.Attribute) and v.func.attr == "_merged_solver_for":
                    merged.setdefault(st.targets[0].id, []).append(v)
        for c in walk_no_nested(fn):
            if not (isinstance(c, ast.Call) and isinstance(c.func, ast.Attribute)):
                continue
            recv = c.func.value
            if isinstance(recv, ast.Name) and recv.id in merged:
                sources = merged[recv.id]
            elif isinstance(recv, ast.Call) and isinstance(recv.func, ast.Attribute) and recv.func.attr == "_merged_solver_for":
                sources = [recv]
            else:
                continue
            if c.func.attr != name:
                continue  # only the delegation of the query itself (not ms.add, ms.constraints, ..)
            handed = {x.id for arg in list(c.args) + [k.value for k in c.keywords] for x in ast.walk(arg) if isinstance(x, ast.Name) and x.id in params} - scalar
            if not handed:
                continue
            for src in sources:
                chosen = {x.id for arg in list(src.args) + [k.value for k in src.keywords] for x in ast.walk(arg) if isinstance(x, ast.Name)}
                n += 1
                missing = sorted(handed - chosen)
                R.check(
                    not missing,
                    m,
                    src,
                    f"{name}: the child is chosen from every operand it is then asked about",
                    f"{cls.name}.{name} asks the merged child about {sorted(handed)} but chooses that child from {sorted(chosen & set(params))} only: "
                    f"the variables of {missing} may live in another child, where their constraints are - solution(x, y) with "
                    f"x == 5 in one child and y < 4 in another answers True for every y",
                    construct=f"{name}: _merged_solver_for without {', '.join(missing)}",
                )
    R.need(n >= 6, f"only {n} delegated queries found in {cls.name}")


@rule(
    "C13.splitfresh",
    props=("C13", "C14", "C15"),
    floor=1,
    family="TS",
    desc="every solver HybridFrontend.split (merge, combine) hands out has sub-frontends of its own: a frontend passed to a "
    "HybridFrontend(...) built inside a loop over the parts is created inside that loop",
)
def c13_splitfresh(R):
    tree = R.tree
    m = tree.mod(HYB_)
    cls = tree.cls(HYB_, "HybridFrontend")
    methods = util.methods_of(cls)
    n = 0

    def is_ctor(c):
        return isinstance(c, ast.Call) and ((isinstance(c.func, ast.Name) and c.func.id == cls.name) or ast.unparse(c.func) in ("type(self)", "self.__class__"))

    def assigned_in(stmts):
        return {t.id for st in stmts for x in ast.walk(st) if isinstance(x, ast.Assign) for t in x.targets if isinstance(t, ast.Name)}

    def per_part(a, fresh):
        """is the argument made for this part: a loop variable / a local made in the loop, or a call's fresh result"""
        if isinstance(a, ast.Name):
            return a.id in fresh
        return isinstance(a, ast.Call)

    for name in ("split",):
        fn = methods.get(name)
        if fn is None:
            continue
        sites = []  # (constructor call, names that are per part there, description)
        for loop in (x for x in ast.walk(fn) if isinstance(x, (ast.For, ast.comprehension))):
            loop_var = {x.id for x in ast.walk(loop.target) if isinstance(x, ast.Name)}
            if isinstance(loop, ast.For):
                region = loop.body
            else:
                comp = getattr(loop, "_parent", None)
                region = [getattr(comp, "elt", None)] if getattr(comp, "elt", None) is not None else []
            fresh = loop_var | assigned_in(region)
            for c in (c for st in region for c in ast.walk(st) if isinstance(c, ast.Call)):
                if is_ctor(c):
                    sites.append((c, fresh))
                elif isinstance(c.func, ast.Attribute) and isinstance(c.func.value, ast.Name) and c.func.value.id == "self" and c.func.attr in methods:
                    # a helper that builds the part: its parameters are per part when the arguments handed to it are
                    h = methods[c.func.attr]
                    hps = [p.arg for p in h.args.args][1:]
                    hfresh = {hp for hp, arg in zip(hps, c.args) if per_part(arg, fresh)} | assigned_in(h.body)
                    for hc in (x for x in ast.walk(h) if is_ctor(x)):
                        sites.append((hc, hfresh))
        for c, fresh in sites:
            for a in c.args:
                n += 1
                R.check(
                    per_part(a, fresh),
                    m,
                    c,
                    f"{name}: each part gets a sub-frontend made for it",
                    f"HybridFrontend.{name} builds every part with `{norm(a)[:50]}`, which is not made inside the loop over the parts: all "
                    f"parts share one approximate frontend holding every part's constraints, and a part's exact=False query excludes "
                    f"values that exist under its own constraints",
                    construct=f"{name}: sub-frontend shared between the parts",
                )
    R.need(n >= 1, "HybridFrontend.split: no part construction found")
