"""C15.unsatflag - constraints of a composite solver that live in no child.

SolverComposite keeps a concrete False among its constraints in the flag `_unsat` only: no child solver holds it.
Every operation that derives *solvers handed to the caller* from the children of an operand (split, merge) therefore has
to look at that operand's flag as well - otherwise the derived solvers have models the operand does not have.  The
rule looks at the operations of the frontend interface that hand out new solvers (split, merge, combine - with their
private helpers inlined) and demands a read of `<operand>._unsat` for every operand whose children are read.
"""

from __future__ import annotations

import ast

from .. import util
from ..core import walk_no_nested
from ..report import rule

CF = "claripy/frontend/composite_frontend.py"

# the operations of the frontend interface that hand new solvers to the caller
_DERIVING = ("split", "merge", "combine", "unsat_core")  # unsat_core: the core is collected from the children


@rule(
    "C15.unsatflag",
    props=("C15", "C12"),
    floor=2,
    family="WHO",
    desc="SolverComposite keeps a concrete False in the `_unsat` flag only, in no child: every operation that hands the "
    "caller solvers derived from an operand's children (split, merge) also reads that operand's flag",
)
def c15_unsatflag(R):
    tree = R.tree
    m = tree.mod(CF)
    cls = tree.cls(CF, "SolverComposite") if "SolverComposite" in m.classes else tree.cls(CF, "CompositeFrontend")
    n = 0
    for name, raw in util.methods_of(cls).items():
        if name not in _DERIVING:
            continue
        fn = tree.func_inlined(CF, f"{cls.name}.{name}")
        readers = set()
        for x in walk_no_nested(fn):
            if isinstance(x, ast.Attribute) and x.attr in ("_solver_list", "_solvers") and isinstance(x.ctx, ast.Load) and isinstance(x.value, ast.Name):
                readers.add(x.value.id)
        # comprehension / loop variables nested in lambdas and comprehensions
        for x in ast.walk(fn):
            if isinstance(x, ast.Attribute) and x.attr in ("_solver_list", "_solvers") and isinstance(x.ctx, ast.Load) and isinstance(x.value, ast.Name):
                readers.add(x.value.id)
        if not readers:
            continue
        n += 1
        flags = {x.value.id for x in ast.walk(fn) if isinstance(x, ast.Attribute) and x.attr == "_unsat" and isinstance(x.ctx, ast.Load) and isinstance(x.value, ast.Name)}
        # `merged = self.blank_copy()` style locals that the method fills itself are not operands
        own = {st.targets[0].id for st in walk_no_nested(fn) if isinstance(st, ast.Assign) and len(st.targets) == 1 and isinstance(st.targets[0], ast.Name) and isinstance(st.value, ast.Call) and isinstance(st.value.func, ast.Attribute) and st.value.func.attr in ("blank_copy", "branch", "copy")}
        # operands are `self` and what loop variables range over; names do not matter (helpers are inlined with their
        # locals renamed apart): a reader is covered when the flag is read on a variable that ranges over the same
        # source (`self`, or a collection built from the same parameter)
        params = {a.arg for a in fn.args.args}
        ranges = {}
        for x in ast.walk(fn):
            if isinstance(x, (ast.For, ast.comprehension)):
                srcs = {n_.id for n_ in ast.walk(x.iter) if isinstance(n_, ast.Name) and n_.id in params}
                for t_ in ast.walk(x.target):
                    if isinstance(t_, ast.Name):
                        ranges.setdefault(t_.id, set()).update(srcs)

        def sources(v):
            return {v} if v in params else ranges.get(v, set())

        flag_sources = set().union(*(sources(v) for v in flags)) if flags else set()
        missing = sorted(v for v in readers - own if sources(v) and not sources(v) <= flag_sources)
        R.check(
            not missing,
            m,
            raw,
            f"{name}: reads the flag of every operand whose children it reads",
            f"{cls.name}.{name} derives solvers from the children of {missing} without reading {' / '.join(x + '._unsat' for x in missing)}: "
            f"a concrete False added to that operand lives in the flag only, so the derived solvers have models the operand does "
            f"not have (split() of an unsatisfiable composite returned satisfiable parts; merge() kept the condition of an "
            f"unsatisfiable operand feasible)",
            construct=f"{name}: derives solvers from children without the unsat flag",
        )
    R.need(n >= 2, f"only {n} deriving operations found (split, merge expected)")


# fields that __setstate__ may rebuild blank: a blank value means "nothing known", every reader falls back to the solver
_BLANK_MEANS_UNKNOWN = {
    ("CompositeFrontend", "_owned_solvers"): "owning nothing is the safe state: every child is copied (claimed) before it is written to",
    ("FullFrontend", "_to_add"): "no native solver exists after unpickling (fresh thread-local): every constraint is added again from `constraints` on first use",
    ("FullFrontend", "_tls"): "fresh per-thread slot; the native solver is rebuilt on demand",
    ("CompositedCacheMixin", "_merged_solvers"): "cache of merged children, rebuilt on demand",
    ("ModelCache", "replacements"): "memo of evaluated expressions",
    ("ModelCache", "constraint_only_replacements"): "memo of evaluated expressions",
    ("ModelCacheMixin", "_models"): "no cached model: the next query asks the solver",
    ("ModelCacheMixin", "_exhausted"): "False = not known to be exhausted",
    ("ModelCacheMixin", "_eval_exhausted"): "no mark: the next query asks the solver",
    ("ModelCacheMixin", "_max_exhausted"): "no mark",
    ("ModelCacheMixin", "_min_exhausted"): "no mark",
    ("ModelCacheMixin", "_max_signed_exhausted"): "no mark",
    ("ModelCacheMixin", "_min_signed_exhausted"): "no mark",
}


@rule(
    "FE.fields.unpickleblank",
    props=("C18", "C12"),
    floor=8,
    family="SIB",
    desc="a field that __setstate__ rebuilds without reading the pickled state or the restored fields (an empty container, "
    "a constant) is one whose blank value means 'nothing known' to every reader; an obligation list such as the "
    "composite's children-still-to-check is rebuilt from the restored children",
)
def fe_fields_unpickleblank(R):
    from .fe_state import _field_classes

    tree = R.tree
    n = 0
    for m, c, fields, ms in _field_classes(tree):
        ss = ms.get("__setstate__")
        if ss is None:
            continue
        params = {a.arg for a in ss.args.args} - {"self"}
        # locals unpacked from the state
        tainted = set(params)
        for _ in range(3):
            for st in walk_no_nested(ss):
                if isinstance(st, ast.Assign) and any(isinstance(x, ast.Name) and x.id in tainted for x in ast.walk(st.value)):
                    for t in st.targets:
                        for x in ast.walk(t):
                            if isinstance(x, ast.Name):
                                tainted.add(x.id)
        for a, kind, node, val in util.attr_writes(ss, "self"):
            if kind != "assign" or val is None:
                continue
            from_state = any(isinstance(x, ast.Name) and x.id in tainted for x in ast.walk(val))
            from_self = any(isinstance(x, ast.Attribute) and isinstance(x.value, ast.Name) and x.value.id == "self" for x in ast.walk(val))
            from_elsewhere = any(isinstance(x, ast.Call) and not util.is_fresh_container(x) for x in ast.walk(val)) and not util.is_fresh_container(val)
            if from_state or from_self or from_elsewhere:
                continue
            n += 1
            why = _BLANK_MEANS_UNKNOWN.get((c.name, a))
            R.check(
                why is not None,
                m,
                node,
                f"{c.name}.{a} rebuilt blank: {why}",
                f"{c.name}.__setstate__ rebuilds self.{a} as `{ast.unparse(val)[:50]}` without reading the pickled state or the "
                f"restored fields, and a blank {a} is not classified as 'nothing known': an unpickled object then claims something "
                f"the pickled one did not (a SolverComposite pickled before its first query had no child left to check and "
                f"answered satisfiable() == True for `0 <s x` and `x <s 0`)",
                construct=f"{c.name}.{a} rebuilt blank by __setstate__",
            )
    R.need(n >= 8, f"only {n} blank rebuilds found")


@rule(
    "C15.mergekeep",
    props=("C15", "C12"),
    floor=1,
    family="GRD",
    desc="SolverComposite.merge files the merged remainder (the Or over the merge conditions) with _store_child only "
    "under a fact that it shares no variable with the children already filed in the merged solver; otherwise it is added "
    "the ordinary way, which combines the children concerned - _store_child replaces whatever is filed under a variable",
)
def c15_mergekeep(R):
    import re

    from .. import guards

    tree = R.tree
    m = tree.mod(CF)
    cls = tree.cls(CF, "SolverComposite") if "SolverComposite" in m.classes else tree.cls(CF, "CompositeFrontend")
    fn = tree.func_inlined(CF, f"{cls.name}.merge", exclude=("_store_child", "_shared_solvers"))
    own = {st.targets[0].id for st in walk_no_nested(fn) if isinstance(st, ast.Assign) and len(st.targets) == 1 and isinstance(st.targets[0], ast.Name) and isinstance(st.value, ast.Call) and isinstance(st.value.func, ast.Attribute) and st.value.func.attr == "blank_copy"}
    merged_results = set()
    for st in walk_no_nested(fn):
        if isinstance(st, ast.Assign) and isinstance(st.value, ast.Call) and isinstance(st.value.func, ast.Attribute) and st.value.func.attr == "merge":
            for t in st.targets:
                for x in ast.walk(t):
                    if isinstance(x, ast.Name):
                        merged_results.add(x.id)
    n = 0
    for c in walk_no_nested(fn):
        if not (isinstance(c, ast.Call) and isinstance(c.func, ast.Attribute) and c.func.attr == "_store_child" and isinstance(c.func.value, ast.Name) and c.func.value.id in own):
            continue
        if not (c.args and isinstance(c.args[0], ast.Name) and c.args[0].id in merged_results):
            continue
        n += 1
        facts = [re.sub(r"\s+", " ", f) for f in guards.holds(c)]
        ok = any((f.startswith("not ") and "_solvers" in f and ".variables" in f) or "isdisjoint" in f for f in facts)
        R.check(
            ok,
            m,
            c,
            "merged remainder stored only where it overlaps no filed child",
            f"{cls.name}.merge stores the merged remainder `{c.args[0].id}` with _store_child under {facts[-2:] or ['no condition']}: "
            f"_store_child files it under every variable it mentions and replaces the common child filed there - with a merge "
            f"condition over a variable of a common child (a.add(m <u 2); ...; a.merge([b], [m != 0, m == 0])) that child's "
            f"constraints are lost and max(m) is 255",
            construct="merge: merged remainder filed over existing children",
        )
    if n == 0:
        R.ok(m, fn, "merge: the merged remainder is not filed with _store_child")


@rule(
    "C09.compsimpl",
    props=("C09", "C12"),
    floor=1,
    family="PAIR",
    desc="SolverComposite.simplify rebuilds its constraint list from its children: every way through one round of the "
    "loop over the children (the early `continue` for an already simplified child included) adds that child's constraints "
    "to the list that becomes self.constraints",
)
def c09_compsimpl(R):
    tree = R.tree
    m = tree.mod(CF)
    cls = tree.cls(CF, "SolverComposite") if "SolverComposite" in m.classes else tree.cls(CF, "CompositeFrontend")
    fn = tree.func_inlined(CF, f"{cls.name}.simplify", exclude=("_split_child", "_store_child", "_claim"))
    accs = {ast.unparse(st.value) for st in walk_no_nested(fn) if isinstance(st, ast.Assign) and len(st.targets) == 1 and ast.unparse(st.targets[0]) == "self.constraints" and isinstance(st.value, ast.Name)}
    R.need(len(accs) == 1, "simplify: `self.constraints = <list>` not found")
    acc = next(iter(accs))
    loops = [st for st in walk_no_nested(fn) if isinstance(st, ast.For) and "_solver_list" in ast.unparse(st.iter) and isinstance(st.target, ast.Name)]
    R.need(len(loops) == 1, "simplify: loop over the children not found")
    loop = loops[0]
    v = loop.target.id

    def feeds(st):
        if isinstance(st, ast.AugAssign) and ast.unparse(st.target) == acc and isinstance(st.op, ast.Add):
            return any(isinstance(x, ast.Name) and x.id == v for x in ast.walk(st.value))
        if isinstance(st, ast.Expr) and isinstance(st.value, ast.Call) and isinstance(st.value.func, ast.Attribute) and st.value.func.attr in ("extend", "append") and ast.unparse(st.value.func.value) == acc:
            return any(isinstance(x, ast.Name) and x.id == v for a in st.value.args for x in ast.walk(a))
        return False

    def before(node):
        """statements that certainly ran before `node` in this round: earlier siblings, up to the loop body"""
        out = []
        child, par = node, getattr(node, "_parent", None)
        while par is not None:
            for fld in ("body", "orelse"):
                b = getattr(par, fld, None)
                if isinstance(b, list) and child in b:
                    out += b[: b.index(child)]
            if par is loop:
                break
            child, par = par, getattr(par, "_parent", None)
        return out

    n = 0
    exits = [st for st in ast.walk(loop) if isinstance(st, ast.Continue) and not any(isinstance(p, (ast.For, ast.While)) and p is not loop for p in _ancestors(st, loop))]
    for ex in exits:
        n += 1
        R.check(
            any(feeds(st) for st in before(ex)),
            m,
            ex,
            "a child that is skipped still contributes its constraints",
            f"{cls.name}.simplify leaves a round of the loop over the children with `continue` without adding `{v}.constraints` to "
            f"`{acc}`: self.constraints loses that child's constraints (solving through the children stays right, combine(), "
            f"pickling and everything built from .constraints is wrong - after simplify() the set shrank to one group)",
            construct="simplify: skipped child not carried over",
        )
    n += 1
    R.check(
        any(feeds(st) for st in loop.body),
        m,
        loop,
        "a simplified child contributes its constraints",
        f"{cls.name}.simplify does not add `{v}.constraints` to `{acc}` at the end of a round",
        construct="simplify: simplified child not carried over",
    )
    R.need(n >= 1, "simplify: nothing examined")


def _ancestors(node, stop):
    p = getattr(node, "_parent", None)
    while p is not None and p is not stop:
        yield p
        p = getattr(p, "_parent", None)
