"""C15.unsatflag - constraints of a composite solver that live in no child.

SolverComposite keeps a concrete False among its constraints in the flag `_unsat` only: no child solver holds it.
Every operation that derives *solvers handed to the caller* from the children of an operand (split, merge) therefore has
to look at that operand's flag as well - otherwise the derived solvers have models the operand does not have.  The
rule looks at the operations of the frontend interface that hand out new solvers (split, merge, combine - with their
private helpers inlined) and demands a read of `<operand>._unsat` for every operand whose children are read.
"""

from __future__ import annotations

import ast

from .. import util
from ..core import walk_no_nested
from ..report import rule

CF = "claripy/frontend/composite_frontend.py"

# the operations of the frontend interface that hand new solvers to the caller
_DERIVING = ("split", "merge", "combine")


@rule(
    "C15.unsatflag",
    props=("C15", "C12"),
    floor=2,
    family="WHO",
    desc="SolverComposite keeps a concrete False in the `_unsat` flag only, in no child: every operation that hands the "
    "caller solvers derived from an operand's children (split, merge) also reads that operand's flag",
)
def c15_unsatflag(R):
    tree = R.tree
    m = tree.mod(CF)
    cls = tree.cls(CF, "SolverComposite") if "SolverComposite" in m.classes else tree.cls(CF, "CompositeFrontend")
    n = 0
    for name, raw in util.methods_of(cls).items():
        if name not in _DERIVING:
            continue
        fn = tree.func_inlined(CF, f"{cls.name}.{name}")
        readers = set()
        for x in walk_no_nested(fn):
            if isinstance(x, ast.Attribute) and x.attr in ("_solver_list", "_solvers") and isinstance(x.ctx, ast.Load) and isinstance(x.value, ast.Name):
                readers.add(x.value.id)
        # comprehension / loop variables nested in lambdas and comprehensions
        for x in ast.walk(fn):
            if isinstance(x, ast.Attribute) and x.attr in ("_solver_list", "_solvers") and isinstance(x.ctx, ast.Load) and isinstance(x.value, ast.Name):
                readers.add(x.value.id)
        if not readers:
            continue
        n += 1
        flags = {x.value.id for x in ast.walk(fn) if isinstance(x, ast.Attribute) and x.attr == "_unsat" and isinstance(x.ctx, ast.Load) and isinstance(x.value, ast.Name)}
        # `merged = self.blank_copy()` style locals that the method fills itself are not operands
        own = {st.targets[0].id for st in walk_no_nested(fn) if isinstance(st, ast.Assign) and len(st.targets) == 1 and isinstance(st.targets[0], ast.Name) and isinstance(st.value, ast.Call) and isinstance(st.value.func, ast.Attribute) and st.value.func.attr in ("blank_copy", "branch", "copy")}
        # operands are `self` and what loop variables range over; names do not matter (helpers are inlined with their
        # locals renamed apart): a reader is covered when the flag is read on a variable that ranges over the same
        # source (`self`, or a collection built from the same parameter)
        params = {a.arg for a in fn.args.args}
        ranges = {}
        for x in ast.walk(fn):
            if isinstance(x, (ast.For, ast.comprehension)):
                srcs = {n_.id for n_ in ast.walk(x.iter) if isinstance(n_, ast.Name) and n_.id in params}
                for t_ in ast.walk(x.target):
                    if isinstance(t_, ast.Name):
                        ranges.setdefault(t_.id, set()).update(srcs)

        def sources(v):
            return {v} if v in params else ranges.get(v, set())

        flag_sources = set().union(*(sources(v) for v in flags)) if flags else set()
        missing = sorted(v for v in readers - own if sources(v) and not sources(v) <= flag_sources)
        R.check(
            not missing,
            m,
            raw,
            f"{name}: reads the flag of every operand whose children it reads",
            f"{cls.name}.{name} derives solvers from the children of {missing} without reading {' / '.join(x + '._unsat' for x in missing)}: "
            f"a concrete False added to that operand lives in the flag only, so the derived solvers have models the operand does "
            f"not have (split() of an unsatisfiable composite returned satisfiable parts; merge() kept the condition of an "
            f"unsatisfiable operand feasible)",
            construct=f"{name}: derives solvers from children without the unsat flag",
        )
    R.need(n >= 2, f"only {n} deriving operations found (split, merge expected)")
