"""C13.swallow - a replacement must not swallow the constraint it was learned from.

SolverReplacement hands its actual solver the constraints with its replacements applied.  A replacement learned from a
constraint (`y + 2 == 2` gives `y + 2 -> 2`, `y == 1` gives `y -> 1`) turns that very constraint into a constant; if the
solver then gets the constant, nothing constrains y any more - neither in later queries about y (first case) nor in the
constraints the solver already holds that mention y (second case).  Necessary for exactness, and visible in the code:
what `_add` passes to `self._actual_frontend.add(..)` is either the constraints as written, or the replaced ones with
each constraint that *lost a variable* to the replacement put back as written - a choice that may depend on the two
variable sets only, not on what else happens to be replaced.
"""

from __future__ import annotations

import ast
import re

from .. import util
from ..core import dotted, norm, walk_no_nested
from ..report import rule

RF = "claripy/frontend/replacement_frontend.py"


@rule(
    "C13.swallow",
    props=("C13",),
    floor=1,
    family="DEP",
    desc="ReplacementFrontend._add gives the actual solver every added constraint either as written or replaced, and a "
    "constraint whose replaced form has lost a variable always as written; the choice depends on the two variable sets "
    "only",
)
def c13_swallow(R):
    tree = R.tree
    m = tree.mod(RF)
    fn = util.resolve_locals(tree.func_inlined(RF, "ReplacementFrontend._add"))
    calls = [
        c
        for c in walk_no_nested(fn)
        if isinstance(c, ast.Call) and isinstance(c.func, ast.Attribute) and c.func.attr == "add" and ast.unparse(c.func.value).endswith("_actual_frontend") and c.args
    ]
    R.need(len(calls) >= 1, "ReplacementFrontend._add no longer passes constraints to the actual frontend")
    for c in calls:
        arg = c.args[0]
        txt = ast.unparse(arg)
        replaced = "_replacement(" in txt or "_replace_list(" in txt or "replace_dict(" in txt
        if not replaced:
            R.ok(m, c, "constraints passed as written")
            continue
        # the test that decides between the written and the replaced constraint
        tests = [x.test for x in ast.walk(arg) if isinstance(x, ast.IfExp)] + [i for x in ast.walk(arg) if isinstance(x, ast.comprehension) for i in x.ifs]
        good = False
        for t in tests:
            tt = ast.unparse(t)
            if ".variables" not in tt:
                continue
            foreign = [
                (dotted(k.func) or ast.unparse(k.func))
                for k in ast.walk(t)
                if isinstance(k, ast.Call) and (dotted(k.func) or "").split(".")[-1] not in ("isinstance", "bool", "frozenset", "set", "len", "issubset", "issuperset", "difference")
            ]
            if not foreign:
                good = True
        R.check(
            good,
            m,
            c,
            "a constraint that lost a variable to the replacements is passed as written",
            f"ReplacementFrontend._add passes `{norm(arg)[:110]}` to the actual solver: the replaced constraints, with no choice "
            f"(or a choice that depends on more than the two variable sets) that puts back a constraint whose replaced form lost a "
            f"variable - add(y + 2 == 2) reached the solver as 2 == 2 and eval(y, 10) returned all eight values; add((x ^ 3) <u y); "
            f"add(y == 1) left y free in the first constraint",
            construct="_add: constraints handed to the actual solver after replacement",
        )
