"""Table-agreement rules for the operator tables that every construction, fold and translation
goes through (C01, shared with C02/C03/C05/C09/C24/C25)."""

from __future__ import annotations

import ast

from .. import guards, optable, refs, util
from ..core import AnalysisError, FuncTypes, Sym, dotted, norm, positional_params, walk_no_nested
from ..report import rule

OPS = "claripy/operations.py"
SIMP = "claripy/simplifications.py"
Z3 = "claripy/backends/backend_z3.py"
CBV = "claripy/backends/backend_concrete/bv.py"


def registry(tree):
    if not hasattr(tree, "_registry"):
        tree._registry = optable.Registry(tree)
    return tree._registry


def dispatch(tree, backend):
    key = "_dispatch_" + backend
    if not hasattr(tree, key):
        setattr(tree, key, optable.Dispatch(tree, backend))
    return getattr(tree, key)


def _decl_sig(d):
    cl = ast.unparse(d.calc_length) if d.calc_length is not None else None
    return (d.arg_types, d.ret, d.extra_check, cl)


# ----------------------------------------------------------------------------- C01.bind


@rule(
    "C01.bind",
    props=("C01", "C02", "C03"),
    floor=100,
    family="TAB",
    desc="every operator binding of the AST classes denotes the op the dunder->op table requires; reflected "
    "dunders are reversed_op of the class's own forward dunder; all declarations of one op agree on argument "
    "types, return type, extra_check and calc_length; unbound names equal their op names",
)
def c01_bind(R):
    tree = R.tree
    reg = registry(tree)
    for b in reg.bindings:
        m = tree.mod(b.path)
        if b.cls is None:
            d = b.target
            R.check(
                d.name == b.attr,
                m,
                b.node,
                f"unbound {b.attr} constructs op {b.attr}",
                f"module-level `{b.attr}` constructs op `{d.name}`: callers of claripy.{b.attr} get a different operation",
            )
            continue
        cls, attr = b.cls, b.attr
        table = refs.DUNDER_OP.get(cls, {})
        d, rev = reg.resolve(cls, attr)
        if attr.startswith("__r") and attr.endswith("__") and ("__" + attr[3:]) in table or (
            attr.startswith("__r") and cls == "BV" and attr == "__rtruediv__"
        ):
            fwd = "__" + attr[3:]
            want = table.get(fwd)
            if want is None:
                continue
            if d is None:
                R.bad(m, b.node, f"{cls}.{attr} does not resolve to an operation")
                continue
            ok = d.name == want and (rev or want in refs.COMMUTATIVE)
            R.check(
                ok,
                m,
                b.node,
                f"{cls}.{attr} is the reflected form of {want}",
                f"{cls}.{attr} resolves to op `{d.name}`{' (reversed)' if rev else ' (operands NOT reversed)'}; "
                f"expected `{want}` with the operands swapped: `k {attr[3:-2]} x` would compute something else",
            )
            # reversed_op must wrap the same class's forward dunder
            if b.kind == "reversed" and isinstance(b.target, tuple):
                R.check(
                    b.target[0] == cls,
                    m,
                    b.node,
                    f"{cls}.{attr} reverses {cls}'s own operator",
                    f"{cls}.{attr} reverses {b.target[0]}.{b.target[1]} of another class",
                )
            continue
        if attr in table:
            want = table[attr]
            if d is None:
                R.bad(m, b.node, f"{cls}.{attr} does not resolve to an operation")
                continue
            R.check(
                d.name == want and not rev,
                m,
                b.node,
                f"{cls}.{attr} denotes {want}",
                f"{cls}.{attr} resolves to op `{d.name}`{' reversed' if rev else ''}; the operator must denote `{want}`",
            )
            continue
        if attr.startswith("__"):
            if b.kind in ("lambda", "other"):
                R.ok(m, b.node, f"{cls}.{attr} is not an op binding", nontrivial=False)
            continue
        # named attribute
        want = refs.ATTR_ALIAS.get((cls, attr), attr)
        if d is None:
            continue
        R.check(
            d.name == want and not rev,
            m,
            b.node,
            f"{cls}.{attr} denotes {want}",
            f"{cls}.{attr} resolves to op `{d.name}`; expected `{want}`",
        )
    # declarations of one op agree
    for name, decls in sorted(reg.ops_by_name().items()):
        by_ret = {}
        for d in decls:
            by_ret.setdefault((d.ret, d.arg_types), []).append(d)
        for key, ds in by_ret.items():
            first = ds[0]
            for d in ds[1:]:
                R.check(
                    _decl_sig(d) == _decl_sig(first),
                    tree.mod(d.path),
                    d.node,
                    f"declarations of {name} agree",
                    f"two declarations of op `{name}` disagree: {_decl_sig(first)} vs {_decl_sig(d)}: the bound and "
                    f"the unbound form of the operation check or size their result differently",
                )
    R.extra["declarations"] = len(reg.decls)
    R.extra["bindings"] = len(reg.bindings)


# ----------------------------------------------------------------------------- C01.optables


@rule(
    "C01.optables",
    props=("C01", "C25"),
    floor=50,
    family="TAB",
    desc="operations.opposites / inverse_operations / reversed_ops / commutative_operations agree with the "
    "reference relations (operand swap, logical negation, reflection) and are involutions",
)
def c01_optables(R):
    tree = R.tree
    m = tree.mod(OPS)
    node = m.tree

    def anchor(name):
        for st in m.tree.body:
            if isinstance(st, ast.Assign) and isinstance(st.targets[0], ast.Name) and st.targets[0].id == name:
                return st
        raise AnalysisError(f"operations.{name} not found")

    opp = tree.const(m, "opposites")
    a = anchor("opposites")
    for k, v in sorted(opp.items()):
        if k in refs.SWAP:
            want = refs.SWAP[k]
        elif k.startswith("__r") and not k.startswith("__rshift") or k in ("__rrshift__", "__rlshift__"):
            want = "__" + k[3:]
        else:
            want = "__r" + k[2:]
        R.check(
            v == want,
            m,
            a,
            f"opposites[{k}] == {want}",
            f"opposites[{k!r}] is {v!r}; swapping the operands of {k} must give {want!r}",
            construct=f"opposites[{k!r}] = {v!r}",
        )
        R.check(
            opp.get(v) == k,
            m,
            a,
            f"opposites is an involution at {k}",
            f"opposites[{k!r}] = {v!r} but opposites[{v!r}] = {opp.get(v)!r}",
            construct=f"opposites involution at {k!r}",
        )
    for k in refs.SWAP:
        R.check(k in opp, m, a, f"opposites covers {k}", f"opposites has no entry for {k}", construct=f"opposites missing {k!r}")
    inv = tree.const(m, "inverse_operations")
    a = anchor("inverse_operations")
    for k, want in sorted(refs.NEGATE.items()):
        R.check(
            inv.get(k) == want,
            m,
            a,
            f"inverse_operations[{k}] == {want}",
            f"inverse_operations[{k!r}] is {inv.get(k)!r}; the negation of {k} is {want!r}",
            construct=f"inverse_operations[{k!r}] = {inv.get(k)!r}",
        )
    for k in inv:
        R.check(k in refs.NEGATE, m, a, f"inverse_operations[{k}] is a comparison", f"unexpected key {k!r}",
                construct=f"inverse_operations extra key {k!r}")
    ro = tree.const(m, "reversed_ops")
    a = anchor("reversed_ops")
    for k, v in sorted(ro.items()):
        R.check(
            k.startswith("__r") and v == "__" + k[3:] and opp.get(k) == v,
            m,
            a,
            f"reversed_ops[{k}] == {v}",
            f"reversed_ops[{k!r}] = {v!r} is not the forward form of the reflected operator",
            construct=f"reversed_ops[{k!r}] = {v!r}",
        )
    co = tree.const(m, "commutative_operations")
    a = anchor("commutative_operations")
    for k in sorted(co):
        R.check(
            k in refs.COMMUTATIVE,
            m,
            a,
            f"{k} is commutative",
            f"commutative_operations lists {k!r}, which is not commutative",
            construct=f"commutative_operations has {k!r}",
        )
    ci = tree.const(m, "comparison_info") if tree.module_assign(m, "comparison_info") is not None else None
    # leaf / backend op sets are consistent with the registry
    reg = registry(tree)
    names = set(reg.ops_by_name())
    for setname in ("backend_comparator_operations", "backend_fp_cmp_operations", "backend_strings_operations"):
        s = tree.const(m, setname)
        a = anchor(setname)
        for k in sorted(s):
            R.check(
                k in names,
                m,
                a,
                f"{setname}: {k} is a declared op",
                f"{setname} lists {k!r}, for which no operations.op declaration exists",
                construct=f"{setname} has {k!r}",
            )


# ----------------------------------------------------------------------------- C01.not


def _op_of_expr(e):
    """Name of the claripy op an expression constructs at top level."""
    if isinstance(e, ast.Compare) and len(e.ops) == 1:
        return {ast.Eq: "__eq__", ast.NotEq: "__ne__", ast.Lt: "ULT", ast.LtE: "ULE", ast.Gt: "UGT", ast.GtE: "UGE"}.get(
            type(e.ops[0])
        ), [e.left, e.comparators[0]]
    if isinstance(e, ast.Call):
        d = dotted(e.func) or ""
        return d.split(".")[-1], list(e.args)
    if isinstance(e, ast.UnaryOp) and isinstance(e.op, ast.Invert):
        return "__invert__", [e.operand]
    return None, []


@rule(
    "C01.not",
    props=("C01",),
    floor=10,
    family="TAB",
    desc="boolean_not_simplifier: Not(a OP b) is rewritten to a NEG(OP) b with the operands in the same order, "
    "for each of the ten comparison operators; Not(Not(x)) is x",
)
def c01_not(R):
    tree = R.tree
    m = tree.mod(SIMP)
    fn = tree.func(SIMP, "boolean_not_simplifier")
    p = positional_params(fn)[0]
    seen = set()
    # the arms of the dispatch on <param>.op, whether written as an if-chain or as match/case
    arms = util.value_arms(fn, f"{p}.op")
    for ktxt, stmts in sorted(arms.items()):
        try:
            k = ast.literal_eval(ktxt)
        except Exception:  # noqa: BLE001
            continue
        rets = [st for st in stmts if isinstance(st, ast.Return) and st.value is not None and not (isinstance(st.value, ast.Constant) and st.value.value is None)]
        if not isinstance(k, str):
            continue
        if len(rets) != 1:
            R.bad(m, stmts[0], f"arm for {k} does not return exactly one rewrite", construct=f"boolean_not_simplifier arm {k} shape")
            continue
        ret = rets[0]
        if k == "Not":
            R.check(
                ast.unparse(ret.value) == f"{p}.args[0]",
                m,
                ret,
                "Not(Not(x)) -> x",
                f"Not(Not(x)) rewritten to `{norm(ret.value)}`",
            )
            seen.add(k)
            continue
        op, args = _op_of_expr(ret.value)
        want = refs.NEGATE.get(k)
        if want is None:
            R.bad(m, ret, f"rewrite for Not({k}) is not in the reference table")
            continue
        seen.add(k)
        R.check(
            op == want,
            m,
            ret,
            f"Not({k}) -> {want}",
            f"Not(a {k} b) is rewritten with `{op}`; the negation of {k} is {want}",
        )
        R.check(
            [ast.unparse(a) for a in args] == [f"{p}.args[0]", f"{p}.args[1]"],
            m,
            ret,
            f"Not({k}): operands kept in order",
            f"Not(a {k} b) is rewritten with operands ({', '.join(ast.unparse(a) for a in args)}): they must stay (a, b)",
        )
    for k in refs.NEGATE:
        R.check(k in seen, m, fn, f"Not({k}) has an arm", f"boolean_not_simplifier has no arm for {k}",
                construct=f"boolean_not_simplifier arm {k}")


# ----------------------------------------------------------------------------- reducers


@rule(
    "C01.reduce",
    props=("C01", "C24"),
    floor=18,
    family="TAB",
    desc="every variadic reducer a backend installs for an operator folds with that same operator "
    "(self._op_raw['__add__'] = self._op_add  =>  reduce(operator.__add__, args))",
)
def c01_reduce(R):
    tree = R.tree
    for be in ("concrete", "z3", "vsa"):
        d = dispatch(tree, be)
        for op, h in sorted(d.raw.items()):
            if h.fn is None or not isinstance(h.fn, FuncTypes):
                continue
            calls = [c for c in ast.walk(h.fn) if isinstance(c, ast.Call) and dotted(c.func) in ("reduce", "functools.reduce")]
            if not calls or len(h.fn.body) > 2:
                continue
            c = calls[0]
            f0 = dotted(c.args[0]) or ""
            a0 = c.args[0]
            if isinstance(a0, ast.Lambda) and len(a0.args.args) == 2 and isinstance(a0.body, ast.BinOp):
                pa, pb = (a.arg for a in a0.args.args)
                sym = {ast.Add: "__add__", ast.Sub: "__sub__", ast.Mult: "__mul__", ast.BitAnd: "__and__", ast.BitOr: "__or__", ast.BitXor: "__xor__"}.get(type(a0.body.op))
                if sym and isinstance(a0.body.left, ast.Name) and isinstance(a0.body.right, ast.Name) and (a0.body.left.id, a0.body.right.id) == (pa, pb):
                    f0 = f"operator.{sym}"
            if not f0.startswith("operator."):
                continue  # folds with something that is not a python operator (a domain method): not this rule's claim
            want = {"And": "__and__", "Or": "__or__", "Xor": "__xor__"}.get(op, op)
            R.check(
                f0 == f"operator.{want}",
                h.fn._module,
                h.fn,
                f"{be}: reducer for {op} folds with operator.{want}",
                f"{be} backend: the handler installed for `{op}` folds with `{f0}`: every {op} node means "
                f"{f0.split('.')[-1]} in this backend",
                construct=f"{be}: _op_raw[{op!r}] -> {h.fn.name}: reduce({f0})",
            )


# ----------------------------------------------------------------------------- C01.z3fwd


def _z3_entry_points(fn):
    """Entry points used in the returned expression(s) of a z3 handler: z3.* calls and python operators."""
    eps = []
    for r in (n for n in walk_no_nested(fn) if isinstance(n, ast.Return) and n.value is not None):
        v = r.value
        for n in ast.walk(v):
            if isinstance(n, ast.Call):
                d = dotted(n.func) or ""
                if d.startswith("z3.") and not d.startswith(("z3.BitVecRef", "z3.BoolRef", "z3.FPRef", "z3.ExprRef", "z3.Ast",
                                                             "z3.BitVecNumRef", "z3.FPNumRef", "z3.SeqRef")):
                    eps.append((d, n))
                if d in ("reduce", "functools.reduce") and n.args:
                    eps.append((dotted(n.args[0]) or "", n))
            if isinstance(n, ast.BinOp):
                sym = {ast.Div: "/", ast.Add: "+", ast.Sub: "-", ast.Mult: "*", ast.BitOr: "|", ast.BitAnd: "&",
                       ast.BitXor: "^", ast.RShift: ">>", ast.LShift: "<<", ast.Mod: "%", ast.FloorDiv: "//"}.get(type(n.op))
                if sym and not (isinstance(n.left, ast.Constant) or isinstance(n.right, ast.Constant)):
                    eps.append(("py:" + sym, n))
            if isinstance(n, ast.Compare) and len(n.ops) == 1:
                sym = {ast.Lt: "<", ast.LtE: "<=", ast.Gt: ">", ast.GtE: ">=", ast.Eq: "==", ast.NotEq: "!="}.get(type(n.ops[0]))
                if sym:
                    eps.append(("py:" + sym, n))
    return eps


HELPER_EPS = {"z3.BV2Int", "z3.Int2BV", "z3.Z3_get_ast_kind", "z3.Z3_get_sort_kind", "z3.Z3_get_sort", "z3.Z3_is_numeral_ast"}


def _param_order(node, params):
    """Order in which the handler's parameters first appear inside `node`."""
    out = []
    for n in ast.walk(node):
        if isinstance(n, ast.Name) and n.id in params and n.id not in out:
            out.append(n.id)
    # ast.walk is breadth-first; recompute in source order
    names = [(n.col_offset, n.lineno, n.id) for n in ast.walk(node) if isinstance(n, ast.Name) and n.id in params]
    names.sort(key=lambda t: (t[1], t[0]))
    out = []
    for _, _, i in names:
        if i not in out:
            out.append(i)
    return out


@rule(
    "C01.z3fwd",
    props=("C01", "C02", "C03", "C09"),
    floor=45,
    family="TAB",
    desc="the forward translation of every op reaches a Z3 constructor with the SMT-LIB meaning the op has "
    "(unsigned div/rem/shift/compare vs signed ones, ...), with the operands passed in declaration order",
)
def c01_z3fwd(R):
    tree = R.tree
    d = dispatch(tree, "z3")
    m = tree.mod(Z3)
    reg = registry(tree)
    checked = 0
    for op in sorted(set(refs.Z3_FORWARD) | set(reg.ops_by_name())):
        if op in ("union", "widen", "intersection", "StrIsDigit"):
            continue
        h = d.handler(op) if op != "If" else d.raw.get("If")
        if h is None or h.kind == "unsupported":
            if op in refs.Z3_FORWARD and op not in ("Xor",):
                R.bad(m, tree.cls(Z3, "BackendZ3"), f"no Z3 handler for op {op}", construct=f"z3 handler for {op} missing")
            continue
        if h.kind == "opfallback":
            R.ok(m, tree.cls(Z3, "BackendZ3"), f"{op}: python operator on z3 terms (trusted)", nontrivial=False)
            continue
        if op not in refs.Z3_FORWARD:
            continue
        fn = h.fn
        eps = [(e, n) for e, n in _z3_entry_points(fn) if e not in HELPER_EPS]
        names = {e for e, _ in eps}
        allowed = refs.Z3_FORWARD[op]
        hit = names & allowed
        checked += 1
        other = {e for e in names if e not in allowed and (e.startswith("z3.Z3_mk_") or e.startswith("py:") or e.startswith("operator."))}
        if op == "Reverse" or not eps:
            continue
        R.check(
            bool(hit) and not (other - {"py:=="}) ,
            m,
            fn,
            f"z3 translation of {op} uses {sorted(hit)}",
            f"z3 translation of `{op}` ({fn.name}) builds its term with {sorted(names)}; the SMT-LIB meaning of "
            f"{op} is one of {sorted(allowed)}",
            construct=f"{fn.name}: {sorted(names)}",
        )
        # operand order
        params = [p for p in positional_params(fn) if p not in ("self",)]
        if fn.args.vararg is None and hit and len(params) >= 2 and not op.startswith(("Str", "IntToStr")):
            ep_node = next(n for e, n in eps if e in hit)
            if isinstance(ep_node, ast.Call) and (dotted(ep_node.func) or "").startswith("z3.Z3_mk_") and ep_node.args:
                # low-level API: the first argument is the context handle
                holder = ast.Tuple(elts=list(ep_node.args[1:]), ctx=ast.Load())
                for a_ in ep_node.args[1:]:
                    pass
                order = []
                for a_ in ep_node.args[1:]:
                    for nm in _param_order(a_, params):
                        if nm not in order:
                            order.append(nm)
            else:
                order = _param_order(ep_node, params)
            R.check(
                order == [p for p in params if p in order] and len(order) == len(params),
                m,
                fn,
                f"{op}: operands reach Z3 in declaration order",
                f"z3 translation of `{op}` passes its operands as {order}, declared as {params}",
                construct=f"{fn.name} operand order {order}",
            )
        if op == "fpNEQ":
            negs = {e for e, _ in _z3_entry_points(fn)} & {"z3.Not", "z3.Z3_mk_not"}
            R.check(bool(negs), m, fn, "fpNEQ is the negation of fp.eq", "fpNEQ is not a negated fp.eq",
                    construct="fpNEQ negation")
    R.need(checked >= 40, f"only {checked} z3 handlers examined")
    # sized string results
    for op, width in (("StrLen", 64), ("StrIndexOf", 64), ("StrToInt", 64)):
        fn = d.handler(op).fn
        i2 = [c for c in ast.walk(fn) if isinstance(c, ast.Call) and dotted(c.func) == "z3.Int2BV"]
        R.check(
            len(i2) == 1 and isinstance(i2[0].args[1], ast.Constant) and i2[0].args[1].value == width,
            m,
            fn,
            f"{op}: integer result converted to a {width}-bit vector",
            f"{op}: z3 integer result is not converted with Int2BV(., {width})",
            construct=f"{fn.name} Int2BV width",
        )


# ----------------------------------------------------------------------------- C01.concrete


_PYOP = {
    ast.Add: "+", ast.Sub: "-", ast.Mult: "*", ast.Mod: "%", ast.FloorDiv: "//", ast.BitAnd: "&", ast.BitOr: "|",
    ast.BitXor: "^", ast.LShift: "<<", ast.RShift: ">>", ast.Div: "/",
    ast.Lt: "<", ast.LtE: "<=", ast.Gt: ">", ast.GtE: ">=", ast.Eq: "==", ast.NotEq: "!=",
}


def _core_expr(fn):
    """The expression a concrete handler computes: argument 0 of the final BVV(...) or the returned comparison."""
    rets = [n for n in walk_no_nested(fn) if isinstance(n, ast.Return) and n.value is not None]
    if not rets:
        return None
    v = rets[-1].value
    if isinstance(v, ast.Call) and dotted(v.func) in ("BVV", "bv.BVV") and v.args:
        v = v.args[0]
    return v


def _view(e):
    """(param name, view) for `x.value` / `x.signed` / `x`."""
    if isinstance(e, ast.Attribute) and isinstance(e.value, ast.Name):
        return e.value.id, e.attr
    if isinstance(e, ast.Name):
        return e.id, ""
    return None, None


@rule(
    "C01.concrete",
    props=("C01", "C04"),
    floor=25,
    family="TAB",
    desc="concrete bit-vector folding: each handler applies the Python operator of the op's meaning to the "
    "operands in order, signed ops read .signed and unsigned ops .value, and the four divisions raise "
    "ClaripyZeroDivisionError on a zero divisor before dividing",
)
def c01_concrete(R):
    tree = R.tree
    m = tree.mod(CBV)
    bvv = tree.cls(CBV, "BVV")
    own = util.methods_of(bvv)
    d = dispatch(tree, "concrete")

    def handler_fn(key):
        if key.startswith("BVV."):
            return own.get(key.split(".", 1)[1])
        h = d.raw.get(key)
        return h.fn if h is not None else None

    for key, (sym, lv, rv) in sorted(refs.CONCRETE_BV.items()):
        fn = handler_fn(key)
        if fn is None:
            R.bad(m, bvv, f"concrete handler {key} not found", construct=f"concrete handler {key} missing")
            continue
        core = _core_expr(fn)
        params = positional_params(fn)
        got = None
        if isinstance(core, ast.BinOp):
            got = (_PYOP.get(type(core.op)), _view(core.left), _view(core.right))
        elif isinstance(core, ast.Compare) and len(core.ops) == 1:
            got = (_PYOP.get(type(core.ops[0])), _view(core.left), _view(core.comparators[0]))
        want = (sym, (params[0], lv), (params[1], rv))
        R.check(
            got == want,
            m,
            fn,
            f"{key}: {params[0]}.{lv} {sym} {params[1]}.{rv}",
            f"concrete {key} computes `{norm(core) if core is not None else None}`; its meaning is "
            f"{params[0]}.{lv} {sym} {params[1]}.{rv} (operator, operand order and signedness)",
            construct=f"{key}: {norm(core) if core is not None else None}",
        )
    # the dispatch really reaches these handlers
    for op in ("ULT", "ULE", "UGT", "UGE", "SLT", "SLE", "SGT", "SGE", "LShR", "SDiv", "SMod", "ZeroExt", "SignExt", "Extract", "Concat"):
        h = d.handler(op)
        R.check(
            h.kind == "func" and h.fn is not None and h.fn.name == op and h.path == CBV,
            m,
            h.fn or bvv,
            f"concrete dispatch: {op} -> bv.{op}",
            f"concrete dispatch sends `{op}` to {h.owner}.{h.fn.name if h.fn else None}",
            construct=f"concrete dispatch {op}",
        )
    for op in ("__floordiv__", "__mod__", "__lshift__", "__rshift__", "__eq__", "__ne__"):
        h = d.handler(op)
        R.check(
            h.kind == "opfallback" and op in own,
            m,
            own.get(op) or bvv,
            f"concrete dispatch: {op} -> BVV.{op} (operator fallback)",
            f"concrete dispatch for `{op}` is {h.kind}; BVV defines it: {op in own}",
            construct=f"concrete dispatch {op}",
        )
    # views of the extension / extraction handlers
    for op, view in refs.CONCRETE_VIEW.items():
        fn = d.raw[op].fn
        core = _core_expr(fn)
        views = {n.attr for n in ast.walk(core) if isinstance(n, ast.Attribute) and n.attr in ("value", "signed")}
        R.check(
            views == {view},
            m,
            fn,
            f"{op} reads .{view}",
            f"concrete {op} reads {sorted(views)}; it must read .{view}",
            construct=f"{op} view {sorted(views)}",
        )
    # zero-divisor guards
    for key in sorted(refs.CONCRETE_DIVISIONS):
        fn = handler_fn(key)
        if fn is None:
            continue
        params = positional_params(fn)
        guard = None
        for st in fn.body:
            if isinstance(st, ast.If) and any(isinstance(x, ast.Raise) and "ClaripyZeroDivisionError" in ast.unparse(x) for x in st.body):
                guard = st
                break
        ok = False
        if guard is not None and isinstance(guard.test, ast.Compare) and isinstance(guard.test.ops[0], ast.Eq):
            left = guard.test.left
            zero = guard.test.comparators[0]
            # the divisor: second parameter's value or a local derived from it
            ok = isinstance(zero, ast.Constant) and zero.value == 0 and util.depends_on(left, {params[1]}, fn) and not util.depends_on(
                left, {params[0]}, None
            )
            # guard precedes the division
            idx = fn.body.index(guard)
            later_div = any(
                isinstance(x, ast.BinOp) and isinstance(x.op, (ast.Mod, ast.FloorDiv, ast.Div))
                for st in fn.body[:idx]
                for x in ast.walk(st)
            )
            ok = ok and not later_div
        R.check(
            ok,
            m,
            fn,
            f"{key}: zero divisor raises ClaripyZeroDivisionError before dividing",
            f"concrete {key} has no `if <divisor> == 0: raise ClaripyZeroDivisionError` ahead of the division "
            f"(a Python ZeroDivisionError or a wrong value escapes)",
            construct=f"{key} zero-divisor guard",
        )
    # unary handlers
    inv = own.get("__invert__")
    neg = own.get("__neg__")
    if inv is not None:
        core = _core_expr(inv)
        R.check(
            isinstance(core, ast.BinOp) and isinstance(core.op, ast.BitXor) or (isinstance(core, ast.UnaryOp) and isinstance(core.op, ast.Invert)),
            m,
            inv,
            "BVV.__invert__ flips all bits",
            f"BVV.__invert__ computes `{norm(core)}`",
        )
    if neg is not None:
        core = _core_expr(neg)
        has_usub = any(isinstance(x, ast.UnaryOp) and isinstance(x.op, ast.USub) for x in ast.walk(core)) or (
            isinstance(core, ast.BinOp) and isinstance(core.op, ast.Sub)
        )
        R.check(has_usub, m, neg, "BVV.__neg__ negates", f"BVV.__neg__ computes `{norm(core)}`")
    for op, want in (("__invert__", "~"), ("__neg__", "-"), ("Not", "not")):
        fn = d.raw[op].fn
        core = _core_expr(fn)
        sym = {ast.Invert: "~", ast.USub: "-", ast.Not: "not"}.get(type(core.op)) if isinstance(core, ast.UnaryOp) else None
        R.check(
            sym == want,
            fn._module,
            fn,
            f"concrete {op} applies `{want}`",
            f"concrete handler for {op} computes `{norm(core)}`; expected `{want} arg`",
            construct=f"concrete {op}: {norm(core)}",
        )


# ----------------------------------------------------------------------------- C01.if

BOOLAST = "claripy/ast/bool.py"


def _canonical_if(tree):
    """If() with its two working locals put into the reference naming: `args` = [cond, then, else], `ty` = the class
    the node is built with (identified by role, so renaming them in the source changes nothing)."""
    fn = tree.func(BOOLAST, "If")
    params = [a.arg for a in fn.args.args]
    mapping = {}
    for st in walk_no_nested(fn):
        if isinstance(st, ast.Assign) and len(st.targets) == 1 and isinstance(st.targets[0], ast.Name) and isinstance(st.value, ast.List):
            if [ast.unparse(e) for e in st.value.elts] == params:
                mapping[st.targets[0].id] = "args"
    for c in ast.walk(fn):
        if isinstance(c, ast.Call) and isinstance(c.func, ast.Name) and c.args and isinstance(c.args[0], ast.Constant) and c.args[0].value == "If":
            if c.func.id in util.local_names(fn):
                mapping[c.func.id] = "ty"
    return util.rename_locals(fn, mapping)


@rule(
    "C01.if",
    props=("C01", "C24"),
    floor=8,
    family="TAB",
    desc="inline rewrites of If(): true->then, false->else; nested If on the same (negated) condition collapses "
    "to the matching inner branch; (x,x)->x; (true,false)->cond; (false,true)->~cond",
)
def c01_if(R):
    tree = R.tree
    m = tree.mod(BOOLAST)
    fn = _canonical_if(tree)
    arms = 0
    for r in (x for x in walk_no_nested(fn) if isinstance(x, ast.Return)):
        pos = [ast.unparse(t_) for t_, pol in guards.guards_of(r) if pol]
        conj = frozenset(pos)
        st = r
        ret = r.value
        rtxt = ast.unparse(ret) if ret is not None else "None"
        t = " and ".join(pos)
        if conj == {"is_true(args[0])"}:
            arms += 1
            R.check(rtxt.startswith("args[1]"), m, st, "If(true, a, b) -> a", f"If(true, a, b) returns `{rtxt}`")
        elif conj == {"is_false(args[0])"}:
            arms += 1
            R.check(rtxt.startswith("args[2]"), m, st, "If(false, a, b) -> b", f"If(false, a, b) returns `{rtxt}`")
        elif any(f.endswith(".op == 'If'") for f in conj) and any(".args[0] is " in f for f in conj):
            arms += 1
            k = 1 if "args[1].op == 'If'" in conj else 2
            rel = None
            for f in conj:
                if f.startswith(f"args[{k}].args[0] is "):
                    rel = f[len(f"args[{k}].args[0] is ") :]
            same = rel == "args[0]"
            negated = rel in ("Not(args[0])", "~args[0]")
            if not (same or negated):
                R.bad(m, st, f"nested-If arm with an unrecognised condition relation: `{t}`")
                continue
            if k == 1:
                inner = 1 if same else 2
                want = ["args[0]", f"args[1].args[{inner}]", "args[2]"]
            else:
                inner = 2 if same else 1
                want = ["args[0]", "args[1]", f"args[2].args[{inner}]"]
            got = [ast.unparse(a) for a in ret.args] if isinstance(ret, ast.Call) and dotted(ret.func) == "If" else None
            R.check(
                got == want,
                m,
                st,
                f"If(c, {'If(c' if same else 'If(!c'}...) in slot {k} collapses to inner branch {inner}",
                f"nested If in the {'then' if k == 1 else 'else'} slot on the {'same' if same else 'negated'} "
                f"condition is rewritten to If({', '.join(got) if got else rtxt}); expected If({', '.join(want)})",
            )
        elif conj == {"args[1] is args[2]"}:
            arms += 1
            R.check(rtxt in ("args[1]", "args[2]"), m, st, "If(c, x, x) -> x", f"If(c, x, x) returns `{rtxt}`")
        elif conj == {"args[1] is true()", "args[2] is false()"}:
            arms += 1
            R.check(rtxt == "args[0]", m, st, "If(c, true, false) -> c", f"If(c, true, false) returns `{rtxt}`")
        elif conj == {"args[1] is false()", "args[2] is true()"}:
            arms += 1
            R.check(rtxt in ("~args[0]", "Not(args[0])"), m, st, "If(c, false, true) -> !c", f"If(c, false, true) returns `{rtxt}`")
    R.need(arms >= 8, f"only {arms} rewrite arms recognised in If()")
    # the node finally built keeps the three arguments in order
    last = [s for s in fn.body if isinstance(s, (ast.Return, ast.If))][-2:]
    builds = [c for c in ast.walk(fn) if isinstance(c, ast.Call) and dotted(c.func) == "ty" and c.args and ast.unparse(c.args[0]) == "'If'"]
    R.need(builds, "If() no longer builds ty('If', ...)")
    for c in builds:
        R.check(
            ast.unparse(c.args[1]) == "tuple(args)",
            m,
            c,
            "If node built from (cond, then, else) in order",
            f"If node built from `{ast.unparse(c.args[1])}`",
        )
