"""C01.rwguard - rewrites of simplifications.py that are identities only under a side condition are returned only
where that condition is a dominating fact.

Each arm below is a rewrite `lhs -> rhs` that is NOT an identity of bit-vector arithmetic in general; the one-line
argument says when it is.  The rule finds the arm by what it *returns* and under which facts (never by position or
text), and demands the side condition among the facts that dominate the return.  Facts are read from the function
with its private helpers inlined and its locals resolved, in positive form, so a helper such as `_is_single_bit`, a
guard clause, a nested if or a renamed local make no difference.

  shift merge      (x << a) << b  ->  x << (a + b)        only if a + b does not wrap modulo 2**w: the sum is taken
                                                          over Python ints and compared with the width
  mask test        (e & m) ^ m == 0  ->  e & m != 0       only if m has exactly one bit set
  one-bit invert   ~If(c, 1, 0)  ->  If(!c, 1, 0)         only at width 1 (~1 is 0xfe at 8 bits)
  rotate and mask  ((A << a) | LShR(A, b)) & k  ->  rot   only if A has a + b bits
"""

from __future__ import annotations

import ast
import re

from .. import guards, util
from ..core import dotted, norm, walk_no_nested
from ..report import rule

SIMP = "claripy/simplifications.py"

_SIZE = re.compile(r"(\.size\(\)|\.length\b|\blen\()")
_PAYLOAD = re.compile(r"\.args\[0\]$")


def _fn(tree, name):
    return util.resolve_locals(tree.func_inlined(SIMP, name))


def _returns(fn):
    for r in walk_no_nested(fn):
        if isinstance(r, ast.Return) and r.value is not None and not (isinstance(r.value, ast.Constant) and r.value.value is None):
            yield r


def _facts(node):
    return [re.sub(r"\s+", " ", f) for f in guards.holds(node)]


def _single_bit_fact(facts):
    """some fact says `M & (M - 1) == 0`, `M.bit_count() == 1` or `bin(M).count('1') == 1`"""
    for f in facts:
        try:
            t = ast.parse(f, mode="eval").body
        except SyntaxError:
            continue
        if not (isinstance(t, ast.Compare) and len(t.ops) == 1 and isinstance(t.ops[0], ast.Eq)):
            continue
        for lhs, rhs in ((t.left, t.comparators[0]), (t.comparators[0], t.left)):
            if isinstance(rhs, ast.Constant) and rhs.value == 0 and isinstance(lhs, ast.BinOp) and isinstance(lhs.op, ast.BitAnd):
                for m, d in ((lhs.left, lhs.right), (lhs.right, lhs.left)):
                    if isinstance(d, ast.BinOp) and isinstance(d.op, ast.Sub) and isinstance(d.right, ast.Constant) and d.right.value == 1 and ast.unparse(d.left) == ast.unparse(m):
                        return ast.unparse(m)
            if isinstance(rhs, ast.Constant) and rhs.value == 1 and isinstance(lhs, ast.Call) and isinstance(lhs.func, ast.Attribute) and lhs.func.attr in ("bit_count", "count"):
                return ast.unparse(lhs)
    return None


@rule(
    "C01.rwguard",
    props=("C01",),
    floor=7,
    family="GRD",
    desc="conditional identities among the simplifier rewrites are returned only under their side condition: nested "
    "left shifts are merged only with a non-wrapping integer sum of the amounts, `(e & m) ^ m == 0 -> e & m != 0` only "
    "for a single-bit m, `~If(c, 1, 0) -> If(!c, 1, 0)` only at width 1, rotate-and-mask only when the operand is as "
    "wide as the rotation",
)
def c01_rwguard(R):
    tree = R.tree
    m = tree.mod(SIMP)

    # ---- shift merge
    fn = _fn(tree, "lshift_simplifier")
    n = 0
    for r in _returns(fn):
        v = r.value
        if not (isinstance(v, ast.BinOp) and isinstance(v.op, ast.LShift)):
            continue
        adds = [x for x in ast.walk(v.right) if isinstance(x, ast.BinOp) and isinstance(x.op, ast.Add)]
        if not adds:
            continue
        n += 1
        facts = _facts(r)
        add = adds[0]
        ints = all(_PAYLOAD.search(ast.unparse(o)) and f"{ast.unparse(o)[: -len('.args[0]')]}.op == 'BVV'" in facts for o in (add.left, add.right))
        sum_txt = re.sub(r"\s+", " ", ast.unparse(add))
        bounded = any(sum_txt in f and _SIZE.search(f) and re.search(r"<", f) for f in facts)
        R.check(
            ints and bounded,
            m,
            r,
            "nested shifts merged with a non-wrapping sum",
            f"lshift_simplifier returns `{norm(v)[:120]}`: the merged amount `{sum_txt}` is "
            + ("a bit-vector sum, taken modulo 2**w" if not ints else "not compared with the width")
            + " - (x << 255) << 1 at 8 bits becomes x << 0",
            construct="lshift_simplifier: merged shift amount does not wrap",
        )
    R.ok(m, fn, f"lshift_simplifier: {n} merging arm(s)")

    # ---- mask test
    for name in ("eq_simplifier", "ne_simplifier"):
        fn = _fn(tree, name)
        for r in _returns(fn):
            facts = _facts(r)
            if not any("'__xor__'" in f for f in facts):
                continue
            # payload == payload: the xor constant is the and-mask
            pay = [f for f in facts if re.fullmatch(r"\S+\.args\[0\] == \S+\.args\[0\]", f)]
            if not pay:
                continue
            v = r.value
            if not (isinstance(v, ast.Compare) and len(v.ops) == 1 and isinstance(v.comparators[0], ast.Constant) and v.comparators[0].value == 0):
                continue  # e.g. rewritten to `(e & m) == m`, an identity for every m
            R.check(
                _single_bit_fact(facts) is not None,
                m,
                r,
                f"{name}: mask test only for a single-bit mask",
                f"{name} returns `{norm(v)[:100]}` for `(e & m) ^ m` compared with 0 without a fact that m has exactly one "
                f"bit: for y = 1, ((y & 3) ^ 3) == 0 is false and (y & 3) != 0 is true",
                construct=f"{name}: (e & m) ^ m against 0 rewritten to a test of e & m",
            )

    # ---- one-bit invert
    fn = _fn(tree, "invert_simplifier")
    for r in _returns(fn):
        v = r.value
        if not (isinstance(v, ast.Call) and (dotted(v.func) or "").split(".")[-1] == "If" and v.args):
            continue
        c0 = v.args[0]
        negated = (isinstance(c0, ast.Call) and (dotted(c0.func) or "").split(".")[-1] == "Not") or (isinstance(c0, ast.UnaryOp) and isinstance(c0.op, (ast.Invert, ast.Not)))
        if not negated:
            continue
        if any(isinstance(x, ast.UnaryOp) and isinstance(x.op, ast.Invert) for a in v.args[1:] for x in ast.walk(a)):
            continue  # arms inverted too: not this rewrite
        facts = _facts(r)
        one = any(_SIZE.search(f) and re.search(r"== 1$|^1 ==", f) for f in facts)
        R.check(
            one,
            m,
            r,
            "If(c, 1, 0) flipped only at one bit",
            f"invert_simplifier returns `{norm(v)[:100]}` for ~If(c, 1, 0) without a fact that the value is one bit wide: "
            f"at 8 bits the original is 0xfe / 0xff",
            construct="invert_simplifier: If(c, 1, 0) flipped by negating the condition",
        )

    # ---- rotate and mask
    fn = _fn(tree, "rotate_shift_mask_simplifier")
    for r in _returns(fn):
        facts = _facts(r)
        ok = False
        for f in facts:
            try:
                t = ast.parse(f, mode="eval").body
            except SyntaxError:
                continue
            if isinstance(t, ast.Compare) and len(t.ops) == 1 and isinstance(t.ops[0], ast.Eq):
                for a, b in ((t.left, t.comparators[0]), (t.comparators[0], t.left)):
                    if _SIZE.search(ast.unparse(a)) and isinstance(b, ast.BinOp) and isinstance(b.op, ast.Add) and all(_PAYLOAD.search(ast.unparse(o)) for o in (b.left, b.right)):
                        ok = True
        R.check(
            ok,
            m,
            r,
            "rotate-and-mask only for an operand as wide as the rotation",
            f"rotate_shift_mask_simplifier returns `{norm(r.value)[:100]}` without a fact that the shifted operand has "
            f"lshift + rshift bits: (A << 16) | LShR(A, 16) of a 64-bit A is no rotation and bits 32..47 are lost",
            construct="rotate_shift_mask_simplifier: operand width equals the rotation width",
        )


def _simplifier_for(tree, op):
    """the function the registry `_all_simplifiers` installs for `op`, through aliases"""
    m = tree.mod(SIMP)
    table = None
    for st in m.tree.body:
        if isinstance(st, ast.Assign) and any(isinstance(t, ast.Name) and t.id == "_all_simplifiers" for t in st.targets) and isinstance(st.value, ast.Dict):
            table = st.value
    if table is None:
        return None
    name = None
    for k, v in zip(table.keys, table.values):
        if isinstance(k, ast.Constant) and k.value == op and isinstance(v, ast.Name):
            name = v.id
    seen = set()
    while name is not None and name not in seen:
        seen.add(name)
        if name in m.functions:
            return name
        alias = [st.value.id for st in m.tree.body if isinstance(st, ast.Assign) and any(isinstance(t, ast.Name) and t.id == name for t in st.targets) and isinstance(st.value, ast.Name)]
        name = alias[0] if alias else None
    return None


@rule(
    "C01.ashr",
    props=("C01",),
    floor=2,
    family="GRD",
    desc="the simplifier installed for the arithmetic right shift drops the shift (returns something that is no longer an "
    "arithmetic shift of the operand) only for a zero amount or under a fact that the operand's top bit is 0 (a zero "
    "extension, a Concat whose high part is the constant 0): vacated bits are copies of the sign, not zeros",
)
def c01_ashr(R):
    tree = R.tree
    m = tree.mod(SIMP)
    name = _simplifier_for(tree, "__rshift__")
    R.need(name is not None, "no simplifier registered for __rshift__")
    fn = util.resolve_locals(tree.func_inlined(SIMP, name))
    ps = [a.arg for a in fn.args.args]
    R.need(len(ps) >= 2, f"{name} no longer takes (value, amount)")
    val, amount = ps[0], ps[1]
    n = 0
    for r in _returns(fn):
        v = r.value
        keeps = any(isinstance(x, ast.BinOp) and isinstance(x.op, ast.RShift) for x in ast.walk(v)) or "__rshift__" in ast.unparse(v)
        if keeps:
            continue
        n += 1
        facts = _facts(r)
        zero_amount = any(re.fullmatch(rf"\({amount} == 0\)\.is_true\(\)|{amount} == 0|claripy\.is_true\({amount} == 0\)", f) for f in facts)
        msb_zero = any(re.fullmatch(rf"{val}\.op == 'ZeroExt'", f) for f in facts) or (
            any(re.fullmatch(rf"{val}\.op == 'Concat'", f) for f in facts) and any(re.fullmatch(rf"\({val}\.args\[0\] == 0\)\.is_true\(\)|claripy\.is_true\({val}\.args\[0\] == 0\)", f) for f in facts)
        )
        R.check(
            zero_amount or msb_zero,
            m,
            r,
            "arithmetic shift dropped only for amount 0 or a non-negative operand",
            f"{name} (installed for the arithmetic `>>`) returns `{norm(v)[:90]}` under {facts[-3:]} - neither a zero amount nor a "
            f"fact that the operand's top bit is 0: an arithmetic shift fills with the sign bit, so Concat(edx, eax) >> 32 with the "
            f"top bit of edx set is 0xffffffff..., not the zero extension of edx",
            construct=f"{name}: arithmetic shift rewritten to `{norm(v)[:40]}`",
        )
    R.need(n >= 2, f"{name}: only {n} shift-dropping rewrites found")


@rule(
    "C07.flag",
    props=("C07",),
    floor=1,
    family="WHO",
    desc="a simplifier hands back (result, True) - 'annotations already dealt with', which makes operations.op skip "
    "_handle_annotations - only for a result that it obtained from _handle_annotations itself: an argument passed "
    "through unchanged has not been dealt with (the annotations of the node that disappears, and of its other "
    "arguments, are neither vetoed nor relocated)",
)
def c07_flag(R):
    tree = R.tree
    m = tree.mod(SIMP)
    n = flagged = 0
    for name, fn in m.functions.items():
        if not (isinstance(fn, ast.FunctionDef) and name.endswith("_simplifier")):
            continue
        n += 1
        for r in walk_no_nested(fn):
            if not (isinstance(r, ast.Return) and isinstance(r.value, ast.Tuple) and len(r.value.elts) == 2):
                continue
            flag = r.value.elts[1]
            if isinstance(flag, ast.Constant) and flag.value is False:
                continue
            flagged += 1
            res = r.value.elts[0]
            handled = any(isinstance(c, ast.Call) and (dotted(c.func) or "").split(".")[-1] == "_handle_annotations" for c in ast.walk(res))
            if not handled and isinstance(res, ast.Name):
                for st in walk_no_nested(fn):
                    if isinstance(st, ast.Assign) and any(isinstance(t, ast.Name) and t.id == res.id for t in st.targets):
                        handled = handled or any(isinstance(c, ast.Call) and (dotted(c.func) or "").split(".")[-1] == "_handle_annotations" for c in ast.walk(st.value))
            R.check(
                handled,
                m,
                r,
                f"{name}: 'annotated' claimed only for a result of _handle_annotations",
                f"{name} returns `{norm(r.value)[:80]}`: the flag makes the caller skip _handle_annotations although `{norm(res)[:40]}` did "
                f"not come out of it - Concat(p, q).annotate(a)[7:0] became the bare q for a non-eliminatable a (the rewrite has to "
                f"be refused) as for a relocatable one (it has to move to the result)",
                construct=f"{name}: result flagged as annotated",
            )
    R.need(n >= 20, f"only {n} simplifiers found")
    if flagged == 0:
        R.ok(m, None, "no simplifier claims to have dealt with annotations")


_FLATTENED = {"__and__", "__or__", "__xor__", "__add__", "__mul__", "And", "Or"}  # the operators _flatten_simplifier is installed for


@rule(
    "C01.arity",
    props=("C01",),
    floor=1,
    family="GRD",
    desc="a rewrite of simplifications.py that recognises (identity tests) or rebuilds a node of a flattened operator from "
    "its operands 0 and 1 does so under a fact that the node has exactly two operands: (a ^ b) ^ k, (m & x) & y are one "
    "node with three operands, and a rewrite that reads two of them drops the third",
)
def c01_arity(R):
    tree = R.tree
    m = tree.mod(SIMP)
    n = examined = 0
    for name, fn0 in m.functions.items():
        if not isinstance(fn0, ast.FunctionDef) or not name.endswith(("_simplifier", "_minmax")):
            continue
        fn = util.resolve_locals(tree.func_inlined(SIMP, name))
        for r in _returns(fn):
            facts = _facts(r)
            txt = ast.unparse(r.value)
            for f in facts:
                mm = re.fullmatch(r"(.+)\.op == '(\w+)'", f)
                if not mm or mm.group(2) not in _FLATTENED:
                    continue
                P = re.escape(mm.group(1))
                examined += 1
                both_in_value = re.search(P + r"\.args\[0\]", txt) and re.search(P + r"\.args\[1\]", txt)
                rest = re.sub(P + r"\.args\[[01]\]", "", txt)
                whole_in_value = re.search(P + r"(?![\w.\[])|" + P + r"\.args(?!\[)", rest)
                matched_by_identity = any(re.search(P + r"\.args\[0\] is ", g) and re.search(P + r"\.args\[1\] is ", g) for g in facts)
                if not ((both_in_value and not whole_in_value) or matched_by_identity):
                    continue
                n += 1
                two = any(re.search(r"len\(" + P + r"\.args\) == 2", g) for g in facts)
                R.check(
                    two,
                    m,
                    r,
                    f"{name}: operands 0 and 1 of a {mm.group(2)} node read only where it has two operands",
                    f"{name} returns `{norm(r.value)[:70]}` after reading operands 0 and 1 of `{mm.group(1)}` ({mm.group(2)}, a flattened "
                    f"operator) with no fact that it has exactly two: a third operand is dropped - ((2 & x) & y) ^ 2 == 0 was built "
                    f"as (x & 2) != 0, and the min/max idiom over (s ^ q) ^ k lost k",
                    construct=f"{name}: two operands of a flattened {mm.group(2)} node",
                )
    R.need(examined >= 10, f"only {examined} flattened-operator facts examined in the simplifiers")
    if n == 0:
        R.ok(m, None, "no rewrite reads two operands of a flattened node")


@rule(
    "C04.edge",
    props=("C04",),
    floor=3,
    family="GRD",
    desc="two edge values of expression construction: the concrete backend refuses (BackendError, which the eager fold "
    "suppresses) the empty interval's missing value instead of computing with None; the variadic Boolean simplifiers "
    "answer the empty operand list before anything reads a first operand",
)
def c04_edge(R):
    tree = R.tree
    BCON = "claripy/backends/backend_concrete/backend_concrete.py"
    mc = tree.mod(BCON)
    fn = tree.func(BCON, "BackendConcrete.BVV")
    p0 = [a.arg for a in fn.args.args][0]
    raises = [r for r in walk_no_nested(fn) if isinstance(r, ast.Raise) and "BackendError" in ast.unparse(r)]
    ok = any(f"{p0} is None" in _facts(r) for r in raises)
    R.check(
        ok,
        mc,
        fn,
        "BackendConcrete.BVV refuses a missing value",
        "BackendConcrete.BVV builds a concrete bit-vector from the value None (the empty interval, claripy.ESI): the eager fold "
        "then computes None + 1 and ESI(32) + 1, ~ESI(32), ESI(32)[7:0] raise TypeError out of the AST constructor",
        construct="BackendConcrete.BVV: value None accepted",
    )
    m = tree.mod(SIMP)
    for name in ("boolean_and_simplifier", "boolean_or_simplifier"):
        f = tree.func(SIMP, name)
        va = f.args.vararg.arg if f.args.vararg else None
        R.need(va is not None, f"{name} no longer takes *args")
        empties = [r for r in _returns(f) if any(g in (f"len({va}) == 0", f"not {va}") for g in _facts(r))]
        R.check(
            bool(empties),
            m,
            f,
            f"{name} answers the empty operand list",
            f"{name} has no answer for an empty operand list: the flattening helper looks for a first AST operand and "
            f"{'Or' if 'or' in name else 'And'}() raises StopIteration",
            construct=f"{name}: empty operand list",
        )


@rule(
    "C04.slices",
    props=("C04", "C25", "C13"),
    floor=2,
    family="GRD",
    desc="two places where a rebuilt expression can fail to exist: the balancer slices at a shift amount only under a fact "
    "that the amount is below the width; ReplacementFrontend substitutes inside a handler for the division-by-zero error "
    "of the eager fold",
)
def c04_slices(R):
    tree = R.tree
    BALP = "claripy/backends/backend_vsa/balancer.py"
    mb = tree.mod(BALP)
    fn = util.resolve_locals(tree.func_inlined(BALP, "Balancer._balance_lshift"))
    n = 0
    amount = None
    for st in walk_no_nested(tree.func(BALP, "Balancer._balance_lshift")):
        if isinstance(st, ast.Assign) and isinstance(st.value, ast.Subscript) and "values" in ast.unparse(st.value.value) and isinstance(st.targets[0], ast.Name):
            amount = st.targets[0].id
    R.need(amount is not None, "_balance_lshift: the concrete shift amount was not found")
    raw = tree.func(BALP, "Balancer._balance_lshift")
    for c in walk_no_nested(raw):
        if isinstance(c, ast.Call) and (dotted(c.func) or "").split(".")[-1] == "Extract" and any(isinstance(x, ast.Name) and x.id == amount for a in c.args for x in ast.walk(a)):
            n += 1
            facts = _facts(c)
            ok = any(re.fullmatch(rf"{amount} < len\(.+\)|{amount} < .+\.(size\(\)|length)|len\(.+\) > {amount}", f) for f in facts)
            R.check(
                ok,
                mb,
                c,
                "_balance_lshift slices at the shift amount only below the width",
                f"_balance_lshift builds `{norm(c)[:60]}` with no fact that `{amount}` is below the width: for (x << 9) == 0 on an 8-bit x "
                f"the slice does not exist, Extract raises ClaripyOperationError and SolverHybrid.add fails on a legal constraint",
                construct="_balance_lshift: slice at an unbounded shift amount",
            )
    R.need(n >= 2, f"_balance_lshift: only {n} slices at the shift amount found")
    RFP = "claripy/frontend/replacement_frontend.py"
    mr = tree.mod(RFP)
    rp = tree.func(RFP, "ReplacementFrontend._replacement")
    calls = [c for c in walk_no_nested(rp) if isinstance(c, ast.Call) and (dotted(c.func) or "").split(".")[-1] == "replace_dict"]
    R.need(len(calls) >= 1, "_replacement no longer substitutes with replace_dict")
    for c in calls:
        par = getattr(c, "_parent", None)
        handled = False
        while par is not None and par is not rp:
            if isinstance(par, ast.Try) and any(h.type is not None and re.search(r"ZeroDivisionError|ClaripyOperationError|ClaripyError|Exception", ast.unparse(h.type)) for h in par.handlers):
                handled = True
            par = getattr(par, "_parent", None)
        R.check(
            handled,
            mr,
            c,
            "_replacement survives a divisor that became zero",
            "ReplacementFrontend._replacement substitutes outside any handler for ClaripyZeroDivisionError: x -> 3 in 5 // (x - 3) "
            "builds 5 // 0, which the eager fold refuses, and eval / max / min / solution raise out of the frontend (the solver "
            "answers 255)",
            construct="_replacement: substitution may raise ClaripyZeroDivisionError",
        )


@rule(
    "C25.extract",
    props=("C25",),
    floor=2,
    family="GRD",
    desc="_balance_extract replaces inner[high:low] OP c by inner OP (zeros .. c .. zeros) only where the padded constant "
    "is as wide as inner: a right-hand side without zeros below c needs the fact low == 0, one without zeros above c "
    "needs the slice to reach the top bit; and the bits 'below the slice' that are tested for zero are inner[low-1:0]",
)
def c25_extract(R):
    tree = R.tree
    BALP = "claripy/backends/backend_vsa/balancer.py"
    m = tree.mod(BALP)
    raw = tree.func(BALP, "Balancer._balance_extract")
    fn = util.resolve_locals(tree.func_inlined(BALP, "Balancer._balance_extract"))
    # names of high / low / inner
    hl = None
    for st in walk_no_nested(raw):
        if isinstance(st, ast.Assign) and isinstance(st.targets[0], ast.Tuple) and len(st.targets[0].elts) == 3 and ast.unparse(st.value).endswith(".args[0].args"):
            hl = [e.id for e in st.targets[0].elts if isinstance(e, ast.Name)]
    R.need(hl is not None and len(hl) == 3, "_balance_extract: `high, low, inner = truism.args[0].args` not found")
    high, low, inner = hl
    n = 0
    for r in walk_no_nested(raw):
        if not (isinstance(r, ast.Return) and isinstance(r.value, ast.Call) and (dotted(r.value.func) or "").split(".")[-1] == "Bool" and len(r.value.args) >= 2):
            continue
        pair = r.value.args[1]
        if not (isinstance(pair, (ast.Tuple, ast.List)) and len(pair.elts) == 2):
            continue
        right = pair.elts[1]
        if isinstance(right, ast.Name):
            defs = [st.value for st in walk_no_nested(raw) if isinstance(st, ast.Assign) and any(isinstance(t, ast.Name) and t.id == right.id for t in st.targets)]
            # the definition in the same block
            blk = getattr(r, "_parent", None)
            local = [st.value for st in getattr(blk, "body", []) if isinstance(st, ast.Assign) and any(isinstance(t, ast.Name) and t.id == right.id for t in st.targets)]
            right = (local or defs or [right])[-1]
        if not (isinstance(right, ast.Call) and (dotted(right.func) or "").split(".")[-1] == "Concat"):
            continue
        n += 1
        parts = right.args
        def zero(p_):
            return isinstance(p_, ast.Call) and (dotted(p_.func) or "").split(".")[-1] == "BVV" and p_.args and isinstance(p_.args[0], ast.Constant) and p_.args[0].value == 0
        lead, trail = zero(parts[0]), zero(parts[-1])
        facts = [re.sub(r"\s+", " ", f) for f in guards.holds(r)]
        low_ok = trail or f"{low} == 0" in facts or f"not {low} > 0" in facts or f"{low} <= 0" in facts
        top_ok = lead or any(re.fullmatch(r"\w+ is None", f) for f in facts) or any(re.fullmatch(rf"{high} >= .+ - 1|not {high} < .+ - 1|{high} == .+ - 1", f) for f in facts)
        R.check(
            low_ok and top_ok,
            m,
            r,
            "the padded constant is as wide as the operand",
            f"_balance_extract returns `{norm(r.value)[:90]}` with the right-hand side `{norm(right)[:60]}`"
            + ("" if low_ok else f" and no fact that `{low}` is 0 although nothing is padded below the constant")
            + ("" if top_ok else " and no fact that the slice reaches the top bit although nothing is padded above the constant")
            + ": the slice is compared as if it were the whole operand - LShR(x, 5)[2:1] <= 1 became LShR(x, 5) <= 1, and x = 64 "
            "(slice value 2... the operand is 2) is cut off",
            construct="_balance_extract: padded constant narrower than the operand",
        )
    R.need(n >= 1, f"_balance_extract: only {n} padded rewrites found")
    # the low slice that is tested for zero
    for st in walk_no_nested(raw):
        if isinstance(st, ast.Assign) and isinstance(st.value, ast.Subscript) and isinstance(st.value.slice, ast.Slice) and ast.unparse(st.value.value) == inner:
            lo_, up_ = st.value.slice.upper, st.value.slice.lower
            if lo_ is not None and isinstance(lo_, ast.Constant) and lo_.value == 0:
                R.check(
                    ast.unparse(up_).replace(" ", "") == f"{low}-1",
                    m,
                    st,
                    "the bits below the slice are inner[low - 1 : 0]",
                    f"_balance_extract takes `{ast.unparse(st.value)}` for the bits below the slice: those are {inner}[{low} - 1 : 0]",
                    construct="_balance_extract: low bits of the operand",
                )


@rule(
    "C06.filekey",
    props=("C06", "C18", "C08"),
    floor=2,
    family="DEP",
    desc="an AST is looked up and filed in the hash-cons table under the hash computed from its own contents (_calc_hash of "
    "the op, args, annotations and length it is built with), never under a hash handed in by the caller: the hash in a "
    "pickle was computed in another process, possibly from other annotation hashes",
)
def c06_filekey(R):
    tree = R.tree
    BASEP = "claripy/ast/base.py"
    m = tree.mod(BASEP)
    fn = tree.func(BASEP, "Base.__new__")
    hparam = "hash"
    n = 0
    for st in walk_no_nested(fn):
        if not (isinstance(st, ast.Assign) and isinstance(st.targets[0], ast.Subscript) and "_hash_cache" in ast.unparse(st.targets[0].value)):
            continue
        key = st.targets[0].slice
        n += 1
        defs = [a.value for a in walk_no_nested(fn) if isinstance(a, ast.Assign) and len(a.targets) == 1 and isinstance(a.targets[0], ast.Name) and isinstance(key, ast.Name) and a.targets[0].id == key.id]
        computed = bool(defs) and all(isinstance(d, ast.Call) and (dotted(d.func) or "").split(".")[-1] == "_calc_hash" for d in defs)
        R.check(
            computed,
            m,
            st,
            "filed under the hash of its own contents",
            f"Base.__new__ files the object under `{ast.unparse(key)}`, which is "
            + (f"assigned from {[norm(d)[:60] for d in defs]}" if defs else "not computed here")
            + ": a hash handed in by the unpickler was computed in another process (annotation hashes depend on the hash seed), "
            "and two live objects then exist for one expression",
            construct="Base.__new__: table key not computed from the contents",
        )
    R.need(n >= 1, "Base.__new__ no longer files objects in _hash_cache")
    # the only use of the caller's hash is the shortcut that returns the table's own entry for it
    uses = [x for x in ast.walk(fn) if isinstance(x, ast.Name) and x.id == hparam and isinstance(x.ctx, ast.Load)]
    first_if = next((st for st in fn.body if isinstance(st, ast.If)), None)
    inside = {id(x) for x in ast.walk(first_if.test)} if first_if is not None else set()
    R.check(
        all(id(x) in inside for x in uses),
        m,
        fn,
        "the caller's hash is used for the table shortcut only",
        "Base.__new__ uses the `hash` argument beyond the shortcut that returns the table's entry for it",
        construct="Base.__new__: uses of the caller's hash",
    )
    # replace_dict: the memo maps a visited node to its image - a key is the hash of the node that was visited
    RPL = "claripy/algorithm/replace.py"
    mr = tree.mod(RPL)
    rd = tree.func(RPL, "replace_dict")
    table = [a.arg for a in rd.args.args][1]
    k = 0
    for st in walk_no_nested(rd):
        if isinstance(st, ast.Assign) and isinstance(st.targets[0], ast.Subscript) and ast.unparse(st.targets[0].value) == table:
            k += 1
            key, val = st.targets[0].slice, st.value
            same = isinstance(key, ast.Call) and isinstance(key.func, ast.Attribute) and key.func.attr == "hash" and isinstance(val, ast.Name) and ast.unparse(key.func.value) != val.id
            R.check(
                same,
                mr,
                st,
                "the memo maps a visited node to its image",
                f"replace_dict writes `{ast.unparse(st)}` into the memo (the caller's dict): the image of a substitution is not a "
                f"fixed point of it, so a later node equal to that image is left unreplaced - replace((x*3) - ((x+1)*3), x, x+1) "
                f"returned (x+1)*3 - (x+1)*3",
                construct="replace_dict: memo entry keyed by the image",
            )
    R.need(k >= 2, f"replace_dict: only {k} memo writes found")


@rule(
    "C04.fpedge",
    props=("C04", "C02", "C03"),
    floor=2,
    family="GRD",
    desc="two numeric edges that are visible as guards: _round_fraction converts its result with float() only under the "
    "strict fact that it is below 2**(emax+1) (at the boundary float() raises OverflowError); the decoder of Z3's \\u{..} "
    "escapes accepts as many hex digits as Z3 writes (five, for code points up to 2FFFF)",
)
def c04_fpedge(R):
    tree = R.tree
    CFPP = "claripy/backends/backend_concrete/fp.py"
    m = tree.mod(CFPP)
    fn = tree.func(CFPP, "_round_fraction")
    n = 0
    for c in walk_no_nested(fn):
        if isinstance(c, ast.Call) and isinstance(c.func, ast.Name) and c.func.id == "float" and c.args and isinstance(c.args[0], ast.Name):
            v = c.args[0].id
            facts = [re.sub(r"\s+", " ", f) for f in guards.holds(c)]
            bounded = [f for f in facts if re.fullmatch(rf"{v} < .+", f)]
            if not any(re.search(rf"\b{v}\b", f) for f in facts):
                continue
            n += 1
            R.check(
                bool(bounded),
                m,
                c,
                "float() of the rounded result only strictly below the overflow threshold",
                f"_round_fraction converts `{v}` with float() under {facts}: without the strict bound a result of exactly 2**(emax+1) "
                f"reaches float() and raises OverflowError out of the AST constructor (fpAdd(RTP, MAX, 1e292))",
                construct="_round_fraction: float() at the overflow boundary",
            )
    R.need(n >= 1, "_round_fraction: the guarded float() conversion was not found")
    Z3P = "claripy/backends/backend_z3.py"
    mz = tree.mod(Z3P)
    pats = [st for st in mz.tree.body if isinstance(st, ast.Assign) and isinstance(st.value, ast.Call) and (dotted(st.value.func) or "") == "re.compile" and st.value.args and isinstance(st.value.args[0], ast.Constant) and "u" in str(st.value.args[0].value)]
    R.need(len(pats) >= 1, "backend_z3: the escape pattern was not found")
    import re._parser as rp

    for st in pats:
        pat = st.value.args[0].value
        # the largest number of hex digits the braced group accepts
        most = 0
        try:
            for op_, av in rp.parse(pat):
                if str(op_) == "SUBPATTERN":
                    for op2, av2 in av[3]:
                        if str(op2) in ("MAX_REPEAT", "MIN_REPEAT"):
                            most = max(most, int(av2[1]) if str(av2[1]) != "MAXREPEAT" else 10**6)
        except Exception:  # noqa: BLE001
            most = 0
        R.check(
            most >= 5,
            mz,
            st,
            "the escape decoder accepts five hex digits",
            f"the pattern `{pat}` that decodes Z3's \\u{{..}} escapes accepts at most {most} hex digits: Z3 writes five for code points "
            f"U+10000..U+2FFFF, which then come back as the escape text (StrLen of a returned value is 9 instead of 1)",
            construct="_Z3_ESCAPE: hex digits accepted",
        )


@rule(
    "C06.annfields",
    props=("C06", "C07"),
    floor=2,
    family="SIB",
    desc="an annotation class with fields of its own is compared by an __eq__ that reads them (or by identity): an __eq__ "
    "inherited from a field-less base that compares types only makes two annotations with different contents one "
    "annotation - remove_annotation() then removes the wrong one and hash-consing merges the two expressions",
)
def c06_annfields(R):
    tree = R.tree
    ANNP = "claripy/annotation.py"
    m = tree.mod(ANNP)
    classes = m.classes
    n = 0

    def bases(c):
        return [dotted(b) for b in c.bases if dotted(b) in classes]

    def lookup(c, meth, seen=()):
        """(owner class, FunctionDef) of the nearest definition of `meth` through the bases inside the module"""
        ms = util.methods_of(c)
        if meth in ms:
            return c, ms[meth]
        for b in bases(c):
            if b not in seen:
                r = lookup(classes[b], meth, (*seen, b))
                if r is not None:
                    return r
        return None

    for name, c in classes.items():
        init = util.methods_of(c).get("__init__")
        if init is None:
            continue
        fields = sorted({a for a, kind, node, val in util.attr_writes(init, "self")})
        if not fields:
            continue
        n += 1
        eq = lookup(c, "__eq__")
        if eq is None:
            R.ok(m, c, f"{name}: compared by identity")
            continue
        owner, fn = eq
        read = {x.attr for x in ast.walk(fn) if isinstance(x, ast.Attribute)}
        missing = [f for f in fields if f not in read and f.lstrip("_") not in read]
        R.check(
            not missing,
            m,
            c,
            f"{name}: __eq__ reads its fields",
            f"{name} has the fields {fields} and is compared by {owner.name}.__eq__, which does not read {missing}: two {name} "
            f"annotations with different contents are equal - removing the stack region from x annotated with a stack and a global "
            f"region returns the bare x, and x.annotate(Origin(0x2000)) comes back as the object annotated with Origin(0x1000)",
            construct=f"{name}: __eq__ ignores {missing}",
        )
    R.need(n >= 2, f"only {n} annotation classes with fields found")
