"""Rules anchored in the native-solver side of BackendZ3 and the frontends' handling of
solver failures: C16 (unsat cores), C17 (timeouts/interrupts), C11.z3state, C26 (model values)."""

from __future__ import annotations

import ast

from .. import guards, util
from ..cfg import CFG, describe_path
from ..core import FuncTypes, dotted, norm, walk_no_nested
from ..core import positional_params as core_positional_params
from ..report import rule
from .fe_state import frontend_classes

Z3 = "claripy/backends/backend_z3.py"


def _calls(fn, nested=True):
    for n in ast.walk(fn) if nested else walk_no_nested(fn):
        if isinstance(n, ast.Call):
            yield n


# ----------------------------------------------------------------------------- C17.unknown / onlycheck


@rule(
    "C17.unknown",
    props=("C17",),
    floor=2,
    family="GRD",
    desc="in z3_solver_sat every path on which the native result is `unknown` ends in a raise, and the value "
    "returned is `result == sat`",
)
def c17_unknown(R):
    tree = R.tree
    m = tree.mod(Z3)
    fn = tree.func_inlined(Z3, "z3_solver_sat")
    g = CFG(fn)
    tests = g.find(lambda n: n.kind == "test" and "unknown" in ast.unparse(n.ast))
    R.need(len(tests) >= 1, "no test of the result against z3.unknown in z3_solver_sat")
    for t in tests:
        txt = ast.unparse(t.ast)
        cmpn = t.ast
        pos = isinstance(cmpn, ast.Compare) and isinstance(cmpn.ops[0], (ast.Eq, ast.Is))
        # explore from the branch on which result is unknown
        lab = "T" if pos else "F"
        starts = [nx for nx, l in t.succ if l == lab]
        ok = True
        for s in starts:
            if s is g.exit:
                ok = False
                R.bad(m, t.ast, "the `unknown` branch falls through to a normal return")
                continue
            bad = [p for p in g.paths_avoiding(s, lambda n: False, correlate=True) if p[-1] is g.exit]
            if isinstance(s.ast, ast.Return) or any(True for _ in bad):
                ok = False
                R.bad(
                    m,
                    t.ast,
                    f"a path on which the solver answered `unknown` returns normally: "
                    f"{describe_path(bad[0]) if bad else norm(s.ast)} (a give-up is reported as an answer)",
                )
        if ok:
            R.ok(m, t.ast, f"every path under `{txt}` raises")
    # the normal return value
    rets = [n for n in walk_no_nested(fn) if isinstance(n, ast.Return)]
    R.need(rets, "z3_solver_sat has no return")
    for r in rets:
        v = r.value
        good = (
            isinstance(v, ast.Compare)
            and len(v.ops) == 1
            and (
                (isinstance(v.ops[0], ast.Eq) and dotted(v.comparators[0]) == "z3.sat")
                or (isinstance(v.ops[0], ast.NotEq) and dotted(v.comparators[0]) == "z3.unsat")
            )
        )
        R.check(
            good,
            m,
            r,
            "z3_solver_sat returns whether the result is sat",
            f"z3_solver_sat returns `{norm(v) if v is not None else None}`; expected `result == z3.sat`",
        )
    # the three exception classes by reason
    raises = [n for n in walk_no_nested(fn) if isinstance(n, ast.Raise)]
    names = set()
    for r in raises:
        e = r.exc.func if isinstance(r.exc, ast.Call) else r.exc
        names.add(dotted(e))
    R.check(
        "ClaripySolverInterruptError" in names,
        m,
        fn,
        "timeouts / resource limits raise ClaripySolverInterruptError",
        "z3_solver_sat no longer raises ClaripySolverInterruptError for timeouts",
        construct="raise ClaripySolverInterruptError",
    )
    # the last raise is unconditional within the unknown branch (catch-all)
    last = raises[-1] if raises else None
    if last is not None:
        gs = guards.guards_of(last)
        only_unknown = all("unknown" in ast.unparse(t) or "reason" in ast.unparse(t) for t, _ in gs)
        R.check(
            any("unknown" in ast.unparse(t) for t, _ in gs) and only_unknown,
            m,
            last,
            "unrecognised `unknown` reasons raise too",
            "the catch-all raise for unrecognised reasons is missing or conditional",
        )


@rule(
    "C17.onlycheck",
    props=("C17", "C11"),
    floor=1,
    family="WHO",
    desc="the native solver's check() is called only inside z3_solver_sat (the one place that maps unknown to "
    "an exception)",
)
def c17_onlycheck(R):
    tree = R.tree
    n_in = 0
    for m, q, fn in tree.all_functions():
        for c in _calls(fn, nested=False):
            if isinstance(c.func, ast.Attribute) and c.func.attr in ("check", "check_sat", "consequences"):
                recv = ast.unparse(c.func.value)
                if m.path == Z3 and q == "z3_solver_sat":
                    n_in += 1
                    R.ok(m, c, "native check inside z3_solver_sat")
                elif m.path.startswith("claripy/backends/backend_vsa") or m.path.startswith("claripy/backends/backend_concrete"):
                    continue
                else:
                    R.bad(
                        m,
                        c,
                        f"native solver check `{recv}.{c.func.attr}(...)` outside z3_solver_sat: an `unknown` "
                        f"result would be read as unsat",
                    )
    R.need(n_in >= 1, "z3_solver_sat no longer calls solver.check (anchor vanished)")
    # every *_sat consumer passes through z3_solver_sat
    cls = tree.cls(Z3, "BackendZ3")
    for name in ("_satisfiable", "_batch_eval", "_extrema"):
        fn = util.methods_of(cls).get(name)
        R.need(fn is not None, f"BackendZ3.{name} missing")
        k = sum(1 for c in _calls(fn) if dotted(c.func) == "z3_solver_sat")
        R.check(
            k >= 1,
            tree.mod(Z3),
            fn,
            f"BackendZ3.{name} decides satisfiability through z3_solver_sat",
            f"BackendZ3.{name} does not go through z3_solver_sat",
            construct=f"BackendZ3.{name} uses z3_solver_sat",
        )


# ----------------------------------------------------------------------------- C17.pushpop


def _is_method_call(node, recv_names, meth):
    for n in ast.walk(node) if node is not None else []:
        if (
            isinstance(n, ast.Call)
            and isinstance(n.func, ast.Attribute)
            and n.func.attr == meth
            and isinstance(n.func.value, ast.Name)
            and n.func.value.id in recv_names
        ):
            return True
    return False


@rule(
    "C17.pushpop",
    props=("C17", "C11"),
    floor=1,
    family="PAIR",
    desc="on the CFG with exceptional edges, every path from solver.push() to any exit (normal or exceptional) "
    "of the enclosing function passes solver.pop()",
)
def c17_pushpop(R):
    tree = R.tree
    m = tree.mod(Z3)
    found = 0
    for q, fn in m.functions.items():
        if not any(_is_method_call(s, {"solver", "s"}, "push") for s in fn.body):
            continue
        if any(isinstance(x, FuncTypes) and x is not fn and _is_method_call(x, {"solver", "s"}, "push") for x in ast.walk(fn)):
            pass

        def no_raise(call):
            d = dotted(call.func) or ""
            return d in ("range", "len", "isinstance", "tuple", "zip") or d.startswith("log.") or d.endswith(".push")

        g = CFG(fn, no_raise=no_raise)
        pushes = g.find(lambda n: n.kind == "stmt" and _is_method_call(n.ast, {"solver", "s"}, "push"))
        for p in pushes:
            found += 1
            bad = g.paths_avoiding(p, lambda n: n.ast is not None and _is_method_call(n.ast, {"solver", "s"}, "pop"))
            if not bad:
                R.ok(m, p.ast, f"{q}: every path from push() reaches pop()")
            else:
                exc = [b for b in bad if b[-1] is g.raise_exit]
                norm_ = [b for b in bad if b[-1] is g.exit]
                first = (exc or norm_)[0]
                R.bad(
                    m,
                    p.ast,
                    f"{q}: {len(exc)} exceptional and {len(norm_)} normal path(s) leave the function after "
                    f"solver.push() without solver.pop(), e.g. {describe_path(first[-4:])}; the temporary "
                    f"blocking clauses stay in the frontend's cached solver",
                    construct=f"{q}: solver.push() without pop() on all paths",
                )
    R.need(found >= 1, "no solver.push() found in backend_z3.py (anchor vanished)")


# ----------------------------------------------------------------------------- C11.z3state / C17.local

MUTATING_SOLVER_CALLS = {"add", "assert_and_track", "push", "pop", "reset", "assert_exprs", "append", "insert", "from_string", "from_file"}
ALLOWED_SOLVER_MUTATORS = {
    "BackendZ3._add": {"add", "assert_and_track"},
    "BackendZ3._batch_eval": {"push", "pop", "add"},
    "BackendZ3.solver": {"reset"},
}


@rule(
    "C11.z3state",
    props=("C11", "C14", "C17"),
    floor=5,
    family="WHO",
    desc="only BackendZ3._add asserts into a native solver, only _batch_eval (inside push/pop) adds temporary "
    "clauses; _extrema/_satisfiable/_solution pass assumptions only",
)
def c11_z3state(R):
    tree = R.tree
    m = tree.mod(Z3)
    cls = tree.cls(Z3, "BackendZ3")
    seen = 0
    for name, fn in util.methods_of(cls).items():
        q = f"BackendZ3.{name}"
        params = set(core_positional_params(fn)) | {a.arg for a in fn.args.kwonlyargs}
        for c in _calls(fn, nested=False):
            f = c.func
            if not (isinstance(f, ast.Attribute) and isinstance(f.value, ast.Name)):
                continue
            if f.value.id not in ("solver", "s") or f.value.id not in params | {"s"}:
                continue
            if f.attr not in MUTATING_SOLVER_CALLS:
                continue
            seen += 1
            allowed = ALLOWED_SOLVER_MUTATORS.get(q, set())
            R.check(
                f.attr in allowed,
                m,
                c,
                f"{q}: {f.value.id}.{f.attr}() is one of the sanctioned solver mutations",
                f"{q} mutates the native solver with {f.value.id}.{f.attr}(): only _add may assert and only "
                f"_batch_eval may add temporary clauses (inside push/pop); anything else leaks into later queries",
            )
    R.need(seen >= 4, "sanctioned solver mutations not found (anchor moved)")
    # temporary clauses in _batch_eval are added only inside the push/pop bracket, i.e. only when n > 1
    be = util.methods_of(cls)["_batch_eval"]
    for c in _calls(be, nested=False):
        if isinstance(c.func, ast.Attribute) and c.func.attr == "add" and dotted(c.func.value) == "solver":
            # the loop counter is whatever local the enclosing `for <i> in range(n)` binds
            ctr = "i"
            p_ = c
            while p_ is not None and p_ is not be:
                p_ = getattr(p_, "_parent", None)
                if isinstance(p_, ast.For) and isinstance(p_.target, ast.Name) and ast.unparse(p_.iter) == "range(n)":
                    ctr = p_.target.id
                    break
            gs = [(ast.unparse(t), pol) for t, pol in guards.guards_of(c)]
            R.check(
                (f"{ctr} + 1 != n", True) in gs or (f"{ctr} + 1 == n", False) in gs or ("n > 1", True) in gs or (f"{ctr} + 1 < n", True) in gs,
                m,
                c,
                "blocking clause is added only when another iteration follows (so only when push() happened)",
                f"blocking clause added under guards {gs}: it may be asserted when no push() was done",
            )
    # _extrema uses a local list only
    ex = util.methods_of(cls)["_extrema"]
    muts = [
        c
        for c in _calls(ex, nested=False)
        if isinstance(c.func, ast.Attribute) and c.func.attr in ("append", "pop") and isinstance(c.func.value, ast.Name)
    ]
    locals_ = {t.id for n in walk_no_nested(ex) if isinstance(n, ast.Assign) for t in n.targets if isinstance(t, ast.Name)}
    for c in muts:
        R.check(
            c.func.value.id in locals_,
            m,
            c,
            f"_extrema mutates only its local list `{c.func.value.id}`",
            f"_extrema mutates `{c.func.value.id}`, which is not a local list (the caller's extra_constraints?)",
        )
    # appended search constraint is popped again before the next iteration
    g = CFG(ex, no_raise=lambda call: (dotted(call.func) or "").startswith("log."))
    apps = g.find(
        lambda n: n.kind == "stmt"
        and _is_method_call(n.ast, locals_, "append")
        and any(isinstance(p, ast.While) for p in _parents(n.ast))
    )
    for a in apps:
        bad = [
            p
            for p in g.paths_avoiding(a, lambda n: n.ast is not None and _is_method_call(n.ast, locals_, "pop"))
            if p[-1] is g.exit
        ]
        R.check(
            not bad,
            m,
            a.ast,
            "_extrema: each bisection constraint is removed again before the search continues",
            "_extrema: a bisection constraint appended inside the loop can survive to a normal return",
        )


def _parents(node):
    p = getattr(node, "_parent", None)
    while p is not None:
        yield p
        p = getattr(p, "_parent", None)


# ----------------------------------------------------------------------------- C17.taxonomy

FATAL = ("ClaripySolverInterruptError", "ClaripyZ3Error", "KeyboardInterrupt")
TAXONOMY_SCOPE = (
    "claripy/frontend/",
    "claripy/algorithm/",
    "claripy/ast/base.py",
    "claripy/ast/bool.py",
    "claripy/ast/bv.py",
    "claripy/backends/backend.py",
    "claripy/backends/backend_any.py",
    "claripy/backends/backend_z3.py",
    "claripy/solvers.py",
)
PY_HIER = {
    "KeyboardInterrupt": ["BaseException"],
    "Exception": ["BaseException"],
    "ZeroDivisionError": ["ArithmeticError"],
    "ArithmeticError": ["Exception"],
    "KeyError": ["LookupError"],
    "LookupError": ["Exception"],
    "AttributeError": ["Exception"],
    "TypeError": ["Exception"],
    "ValueError": ["Exception"],
    "RuntimeError": ["Exception"],
    "ImportError": ["Exception"],
    "StopIteration": ["Exception"],
    "RecursionError": ["RuntimeError"],
}


def error_ancestors(tree):
    m = tree.mod("claripy/errors.py")
    parents = dict(PY_HIER)
    for q, c in m.classes.items():
        parents[q] = [dotted(b) or ast.unparse(b) for b in c.bases]
    anc = {}

    def up(n, seen=()):
        if n in anc:
            return anc[n]
        out = {n}
        for p in parents.get(n, []):
            if p not in seen:
                out |= up(p, seen + (n,))
        anc[n] = out
        return out

    for n in list(parents):
        up(n)
    return anc, parents


def _caught_names(typ):
    if typ is None:
        return ["BaseException"]
    if isinstance(typ, ast.Tuple):
        out = []
        for e in typ.elts:
            out += _caught_names(e)
        return out
    d = dotted(typ)
    return [d.split(".")[-1]] if d else [ast.unparse(typ)]


def _reraises(body):
    """The handler body leaves by raising on every path."""
    if not body:
        return False
    last = body[-1]
    if isinstance(last, ast.Raise):
        return True
    if isinstance(last, ast.If) and last.orelse:
        return _reraises(last.body) and _reraises(last.orelse)
    return False


@rule(
    "C17.taxonomy",
    props=("C17",),
    floor=30,
    family="EXC",
    desc="no handler that turns an exception into an answer or a cache write (i.e. does not re-raise) catches a "
    "class that subsumes ClaripySolverInterruptError, ClaripyZ3Error or KeyboardInterrupt",
)
def c17_taxonomy(R):
    tree = R.tree
    anc, parents = error_ancestors(tree)
    for f in FATAL:
        R.need(f in anc, f"error class {f} not found in the hierarchy")
    n = 0
    for m, q, fn in tree.all_functions():
        if not m.path.startswith(TAXONOMY_SCOPE):
            continue
        for node in walk_no_nested(fn):
            handlers = []
            if isinstance(node, ast.Try):
                for h in node.handlers:
                    handlers.append((h, _caught_names(h.type), _reraises(h.body), "except"))
            elif isinstance(node, ast.With):
                for it in node.items:
                    ce = it.context_expr
                    if isinstance(ce, ast.Call) and (dotted(ce.func) or "").endswith("suppress"):
                        names = []
                        for a in ce.args:
                            names += _caught_names(a)
                        handlers.append((node, names, False, "suppress"))
            for h, names, reraises, kind in handlers:
                n += 1
                if reraises:
                    R.ok(m, h, f"{q}: handler for {names} re-raises", nontrivial=False)
                    continue
                swallowed = [f for f in FATAL for nm in names if nm in anc.get(f, {f})]
                # special case: z3_condom converts Z3Exception (external class) and re-raises
                R.check(
                    not swallowed,
                    m,
                    h,
                    f"{q}: non-re-raising handler for {names} cannot swallow a solver give-up",
                    f"{q}: `{kind} {', '.join(names)}` does not re-raise and subsumes {sorted(set(swallowed))}: a "
                    f"timeout/interrupt inside is turned into an answer",
                    construct=f"{kind} {', '.join(names)}",
                )
    R.extra["handlers"] = n


@rule(
    "C17.cachewrite",
    props=("C17", "C11"),
    floor=5,
    family="GRD",
    desc="negative satisfiability is cached only in an `except UnsatError` arm or from a definite False result; "
    "never in a handler of a broader class",
)
def c17_cachewrite(R):
    tree = R.tree
    anc, _ = error_ancestors(tree)
    for m, c in frontend_classes(tree):
        for name, fn in util.methods_of(c).items():
            for a, kind, node, val in util.attr_writes(fn, "self"):
                if a not in ("_cached_satness", "_unsat") or kind != "assign":
                    continue
                if not (isinstance(val, ast.Constant) and val.value is False):
                    continue
                h = None
                for p in _parents(node):
                    if isinstance(p, ast.ExceptHandler):
                        h = p
                        break
                    if isinstance(p, FuncTypes):
                        break
                if h is None:
                    R.ok(m, node, f"{c.name}.{name}: negative cache written outside exception handling")
                    continue
                names = _caught_names(h.type)
                R.check(
                    names == ["UnsatError"],
                    m,
                    node,
                    f"{c.name}.{name}: negative cache written only on UnsatError",
                    f"{c.name}.{name}: negative satisfiability cached in `except {', '.join(names)}`: failures "
                    f"other than unsatisfiability (timeouts, backend errors) poison the cache",
                )


# ----------------------------------------------------------------------------- C16


@rule(
    "C16.shape",
    props=("C16",),
    floor=1,
    family="FIN",
    desc="the value cached as unsat core is a flat tuple of constraints: no element is a name that the same "
    "function uses as a sequence (len(), subscript, iteration)",
)
def c16_shape(R):
    tree = R.tree
    found = 0
    for m, c in frontend_classes(tree):
        for name, fn in util.methods_of(c).items():
            seq_names = set()
            for n in walk_no_nested(fn):
                if isinstance(n, ast.Call) and dotted(n.func) == "len" and n.args and isinstance(n.args[0], ast.Name):
                    seq_names.add(n.args[0].id)
                if isinstance(n, ast.Subscript) and isinstance(n.value, ast.Name):
                    seq_names.add(n.value.id)
                if isinstance(n, (ast.For, ast.comprehension)) and isinstance(n.iter, ast.Name):
                    seq_names.add(n.iter.id)
            for a, kind, node, val in util.attr_writes(fn, "self"):
                if a != "_cached_unsat_core" or kind != "assign":
                    continue
                if isinstance(val, ast.Constant) and val.value is None:
                    continue
                if name in ("__setstate__", "_copy", "_blank_copy", "__init__"):
                    continue
                found += 1
                if not isinstance(val, ast.Tuple):
                    R.bad(m, node, f"{c.name}.{name}: cached unsat core is `{norm(val)}`, not a tuple of constraints")
                    continue
                bad = [e for e in val.elts if isinstance(e, ast.Name) and e.id in seq_names]
                bad += [e for e in val.elts if isinstance(e, (ast.List, ast.Tuple, ast.ListComp))]
                R.check(
                    not bad,
                    m,
                    node,
                    f"{c.name}.{name}: every element of the cached core is a single constraint",
                    f"{c.name}.{name}: cached unsat core `{norm(val)}` contains "
                    f"`{', '.join(norm(b) for b in bad)}`, which this function uses as a sequence of constraints: "
                    f"the core has a list nested inside it",
                )
    R.need(found >= 1, "no write of _cached_unsat_core found (anchor vanished)")


@rule(
    "C16.colocate",
    props=("C16",),
    floor=2,
    family="GRD",
    desc="a core is cached only together with the decision 'unsatisfiable', is consulted only while that "
    "decision stands, and an unsat core request on a satisfiable solver returns () before touching the backend",
)
def c16_colocate(R):
    tree = R.tree
    m = tree.mod("claripy/frontend/mixin/sat_cache_mixin.py")
    add = tree.func(m.path, "SatCacheMixin._add")
    # the local that carries the decision: `if D is False: self._cached_satness = False`
    decision = {"self._cached_satness"}
    for a, kind, node, val in util.attr_writes(add, "self"):
        if a == "_cached_satness" and kind == "assign" and isinstance(val, ast.Constant) and val.value is False:
            for t, pol in guards.guards_of(node):
                if pol and isinstance(t, ast.Compare) and isinstance(t.ops[0], ast.Is) and isinstance(t.left, ast.Name) and ast.unparse(t.comparators[0]) == "False":
                    decision.add(t.left.id)
    for a, kind, node, val in util.attr_writes(add, "self"):
        if a == "_cached_unsat_core" and kind == "assign" and not (isinstance(val, ast.Constant) and val.value is None):
            blk = node._parent
            sib = [
                s
                for s in getattr(blk, "body", [])
                if isinstance(s, ast.Assign)
                and ast.unparse(s.targets[0]) in decision
                and isinstance(s.value, ast.Constant)
                and s.value.value is False
            ]
            R.check(
                bool(sib),
                m,
                node,
                "core cached in the same branch that decides unsat",
                "the unsat core is cached in a branch that does not decide 'unsatisfiable'",
            )
    # sat-first in FullFrontend / CompositeFrontend
    for path, q in (
        ("claripy/frontend/full_frontend.py", "FullFrontend.unsat_core"),
        ("claripy/frontend/composite_frontend.py", "CompositeFrontend.unsat_core"),
    ):
        mm = tree.mod(path)
        fn = tree.func(path, q)
        # every place that asks somebody for a core is reached only after `satisfiable(..)` came back false, and the
        # statement that leaves on a true answer returns the empty core
        asks = [c for c in ast.walk(fn) if isinstance(c, ast.Call) and isinstance(c.func, ast.Attribute) and c.func.attr == "unsat_core"]
        dominated = bool(asks) and all(
            any(not pol and isinstance(t, ast.Call) and isinstance(t.func, ast.Attribute) and t.func.attr == "satisfiable" for t, pol in guards.guards_of(c))
            for c in asks
        )
        empties = [
            st
            for st in ast.walk(fn)
            if isinstance(st, ast.If)
            and any(isinstance(x, ast.Call) and isinstance(x.func, ast.Attribute) and x.func.attr == "satisfiable" for x in ast.walk(st.test))
            and st.body
            and isinstance(st.body[-1], ast.Return)
            and isinstance(st.body[-1].value, (ast.Tuple, ast.List))
            and not st.body[-1].value.elts
        ]
        ok = dominated and bool(empties)
        R.check(
            ok,
            mm,
            fn,
            f"{q} returns an empty core when satisfiable, before asking the backend",
            f"{q} can ask for a core without `satisfiable(...)` having answered false first (or no longer returns () when satisfiable)",
            construct=f"{q}: satisfiable -> ()",
        )


@rule(
    "C16.track",
    props=("C16", "C09"),
    floor=4,
    family="DEP",
    desc="under tracking, BackendZ3.add registers every original AST under the converted term, _add uses "
    "assert_and_track, _unsat_core returns the tracked bodies, and the frontends carry the track flag everywhere",
)
def c16_track(R):
    tree = R.tree
    m = tree.mod(Z3)
    cls = tree.cls(Z3, "BackendZ3")
    ms = util.methods_of(cls)
    add = ms["add"]
    # registration under `if track`
    reg = None
    for n in walk_no_nested(add):
        if isinstance(n, ast.Assign) and isinstance(n.targets[0], ast.Subscript):
            if util.attr_root(n.targets[0], "self") == "_ast_cache":
                reg = n
    R.check(
        reg is not None and any(ast.unparse(t) == "track" and pol for t, pol in guards.guards_of(reg)),
        m,
        reg or add,
        "BackendZ3.add maps the converted term back to the caller's AST when tracking",
        "BackendZ3.add does not register tracked constraints in _ast_cache (cores come back as re-abstracted terms)",
        construct="BackendZ3.add: _ast_cache registration under track",
    )
    if reg is not None:
        # pairs original with converted via zip(c, converted)
        loop = next((p for p in _parents(reg) if isinstance(p, ast.For)), None)
        ok = (
            loop is not None
            and isinstance(loop.iter, ast.Call)
            and dotted(loop.iter.func) == "zip"
            and len(loop.iter.args) >= 2
            and isinstance(reg.value, ast.Tuple)
            and isinstance(loop.target, ast.Tuple)
            and ast.unparse(reg.value.elts[0]) == ast.unparse(loop.target.elts[0])
        )
        R.check(
            ok,
            m,
            reg,
            "the registered AST is the original constraint paired with its converted term",
            "the AST registered for a tracked term is not the original constraint of that term",
        )
        # ... position by position: the second sequence is the conversion of the first, element for element (not a
        # filtered or reordered version of it)
        if ok:
            radd = util.resolve_locals(add)
            zips = [c for c in _calls(radd) if dotted(c.func) == "zip" and len(c.args) >= 2]
            aligned = False
            for z in zips:
                first, second = z.args[0], z.args[1]
                if isinstance(second, ast.Call) and isinstance(second.func, ast.Attribute) and second.func.attr == "convert_list" and len(second.args) == 1 and ast.unparse(second.args[0]) == ast.unparse(first):
                    aligned = True
                if isinstance(second, (ast.ListComp, ast.GeneratorExp)) and len(second.generators) == 1 and not second.generators[0].ifs and ast.unparse(second.generators[0].iter) == ast.unparse(first):
                    aligned = True
            R.check(
                aligned,
                m,
                reg,
                "constraints and converted terms are paired position by position",
                "BackendZ3.add pairs the constraints with a sequence that is not their element-wise conversion (filtered, reordered): "
                "after a dropped literal `true` every term is registered under the AST of the preceding constraint, and a later "
                "round trip of `x <=u y` came back as `true`",
                construct="BackendZ3.add: zip(constraints, converted) aligned",
            )
    _add = ms["_add"]
    aat = [c for c in _calls(_add) if isinstance(c.func, ast.Attribute) and c.func.attr == "assert_and_track"]
    R.check(
        len(aat) == 1 and any(ast.unparse(t) == "track" and pol for t, pol in guards.guards_of(aat[0])),
        m,
        _add,
        "BackendZ3._add uses assert_and_track under `track`",
        "BackendZ3._add does not use assert_and_track when tracking",
        construct="BackendZ3._add: assert_and_track under track",
    )
    plain = [
        c
        for c in _calls(_add)
        if isinstance(c.func, ast.Attribute) and c.func.attr == "add" and isinstance(c.func.value, ast.Name)
        and c.func.value.id == "s"
    ]
    for c in plain:
        R.check(
            any(ast.unparse(t) == "track" and not pol for t, pol in guards.guards_of(c)),
            m,
            c,
            "plain s.add only when not tracking",
            "constraints are asserted untracked although tracking was requested",
        )
    # the track flag is part of every copy / pickle field set
    for path, cname in (
        ("claripy/frontend/full_frontend.py", "FullFrontend"),
        ("claripy/frontend/composite_frontend.py", "CompositeFrontend"),
    ):
        mm = tree.mod(path)
        c = tree.cls(path, cname)
        cms = util.methods_of(c)
        for meth, recv in (("_blank_copy", None), ("__setstate__", "self")):
            fn = cms[meth]
            rv = recv or util.func_param(fn, 1)
            ok = any(
                a == "_track" and (meth != "_blank_copy" or "self._track" in ast.unparse(val))
                for a, kind, node, val in util.attr_writes(fn, rv)
            )
            R.check(
                ok,
                mm,
                fn,
                f"{cname}.{meth} carries _track",
                f"{cname}.{meth} loses the constraint-tracking flag",
                construct=f"{cname}.{meth} carries _track",
            )
        gs = cms["__getstate__"]
        R.check(
            any(a == "_track" for a, _ in util.attr_reads(gs, "self")),
            mm,
            gs,
            f"{cname}.__getstate__ pickles _track",
            f"{cname}.__getstate__ does not pickle _track",
            construct=f"{cname}.__getstate__ carries _track",
        )
    # composite hands the flag to its children template
    solvers = tree.mod("claripy/solvers.py")
    init = tree.func(solvers.path, "SolverComposite.__init__")
    ok = False
    for c in _calls(init):
        if dotted(c.func) == "SolverCompositeChild":
            t = util.kw(c, "track")
            ok = t is not None and ast.unparse(t) == "track"
    R.check(
        ok,
        solvers,
        init,
        "SolverComposite builds its child template with the same track flag",
        "SolverComposite's default child template ignores track",
        construct="SolverCompositeChild(track=track)",
    )


# ----------------------------------------------------------------------------- C26


@rule(
    "C26.completion",
    props=("C26",),
    floor=3,
    family="DEP",
    desc="both model reads use model_completion=True; a bitvector value falls back to the decimal string when "
    "the 64-bit read fails; the model hook keeps only variables under the solver's control",
)
def c26_completion(R):
    tree = R.tree
    m = tree.mod(Z3)
    cls = tree.cls(Z3, "BackendZ3")
    ms = util.methods_of(cls)
    for name in ("_primitive_from_model", "_generic_model"):
        fn = ms.get(name)
        R.need(fn is not None, f"BackendZ3.{name} missing")
        evs = [c for c in _calls(fn) if isinstance(c.func, ast.Attribute) and c.func.attr in ("eval", "evaluate")]
        R.need(evs, f"BackendZ3.{name}: no model.eval call")
        for c in evs:
            mc = util.kw(c, "model_completion")
            R.check(
                isinstance(mc, ast.Constant) and mc.value is True,
                m,
                c,
                f"BackendZ3.{name}: model.eval(..., model_completion=True)",
                f"BackendZ3.{name}: model read without model_completion=True returns the expression itself for "
                f"unconstrained variables",
            )
    # every model variable is named by its decl and mapped through _abstract_to_primitive
    gm = ms["_generic_model"]
    R.check(
        any(dotted(c.func) == "self._abstract_to_primitive" for c in _calls(gm)),
        m,
        gm,
        "_generic_model converts every model value with _abstract_to_primitive",
        "_generic_model no longer converts values with _abstract_to_primitive",
        construct="_generic_model uses _abstract_to_primitive",
    )
    bv = ms["_abstract_bv_val"]
    rets = [n for n in walk_no_nested(bv) if isinstance(n, ast.Return)]
    has_fallback = any("Z3_get_numeral_string" in ast.unparse(r) for r in rets)
    guarded = any(
        isinstance(r, ast.Return) and any("Z3_get_numeral_uint64" in ast.unparse(t) and pol for t, pol in guards.guards_of(r))
        for r in rets
    )
    R.check(
        has_fallback and guarded,
        m,
        bv,
        "_abstract_bv_val: 64-bit fast path guarded by its success flag, decimal-string fallback otherwise",
        "_abstract_bv_val lost its fallback for values that do not fit 64 bits (or uses the fast path unguarded)",
        construct="_abstract_bv_val fast path / fallback",
    )
    # Concat/BNEG quirk arm masks to the piece width:  (1 << arg_size) - arg_int
    prim = ms["_abstract_to_primitive"]
    neg = None
    for n in walk_no_nested(prim):
        if isinstance(n, ast.Assign) and isinstance(n.value, ast.BinOp) and isinstance(n.value.op, ast.Sub):
            if any(ast.unparse(t) == "neg" and pol for t, pol in guards.guards_of(n)):
                neg = n
    if neg is not None:
        txt = ast.unparse(neg.value)
        R.check(
            "1 << arg_size" in txt or "2 ** arg_size" in txt,
            m,
            neg,
            "negated piece is taken modulo 2**(piece width)",
            f"negated piece computed as `{txt}`, not modulo the piece width",
        )
    mc = tree.mod("claripy/frontend/mixin/model_cache_mixin.py")
    hook = tree.func(mc.path, "ModelCacheMixin._model_hook")
    comp = [n for n in ast.walk(hook) if isinstance(n, ast.DictComp)]
    ok = any(any("self.variables" in ast.unparse(i) for g in d.generators for i in g.ifs) for d in comp)
    R.check(
        ok,
        mc,
        hook,
        "_model_hook keeps only the variables under the solver's control",
        "_model_hook no longer filters the model to the solver's own variables",
        construct="_model_hook filter",
    )
