"""Static analysis checks for claripy (see /verif/DESIGN.md)."""
