"""Generate /verif/MANIFEST.json from the rule registry and the per-property claims below.

Run:  /venv/bin/python -m sa.manifest
"""

from __future__ import annotations

import json
import os

from . import report
from .rules import load_all

VERIF = report.VERIF
PY = "/venv/bin/python"

# property -> (technique, what is decided (text), what is not decided (note))
CLAIMS: dict[str, tuple[str, str, str]] = {}

NOT_APPLICABLE = {}  # C22 was listed here until the divisibility interpretation (C21.joinstride, C22.widen) gave it a decidable clause


def claim(prop, technique, text, note):
    CLAIMS[prop] = (technique, text, note)


def build():
    load_all()
    from . import claims  # noqa: F401  (fills CLAIMS)

    props_with_rules = sorted({p for r in report.RULES.values() for p in r.props})
    checks = []
    for p in props_with_rules:
        if p in NOT_APPLICABLE:
            continue
        if p not in CLAIMS:
            continue
        technique, text, note = CLAIMS[p]
        rules = sorted(r.rid for r in report.RULES.values() if p in r.props)
        level = report.LEVELS.get(p, "other")
        checks.append(
            {
                "property_id": p,
                "quick_cmd": f"{PY} -m sa check {p} --tier quick",
                "thorough_cmd": f"{PY} -m sa check {p} --tier thorough",
                "evidence_file": f"/verif/evidence/{p}.json",
                "replay_cmd_template": f"{PY} -m sa replay {{path}}",
                "engine": "sa",
                "technique": technique,
                "level_claimed": {
                    "category": level,
                    "text": text + " Rules: " + ", ".join(rules) + ".",
                    "design_ref": f"DESIGN.md §3 {p}",
                },
                "level_note": note,
            }
        )
    claimed = {c["property_id"] for c in checks}
    all_props = [json.loads(l)["id"] for l in open(os.path.join(VERIF, "properties.jsonl"))]
    na = []
    for p in all_props:
        if p in claimed:
            continue
        reason = NOT_APPLICABLE.get(p) or "no static rule built yet for this property (see DESIGN.md); not claimed"
        na.append({"property_id": p, "reason": reason})
    man = {
        "version": 1,
        "setup_cmd": f"{PY} -m sa selfcheck",
        "hooks": {
            "guard": "CLARIPY_VERIF (unused: static checks need no instrumentation)",
            "enable": "none - the checks parse /repo's working tree; nothing is built or run",
            "baseline_off_cmd": "cd /repo && /venv/bin/python -m pytest -ra -q -p no:cacheprovider --timeout=900 "
            "--continue-on-collection-errors",
            "source_commits": [],
            "add_only": True,
        },
        "engines": [
            {
                "name": "sa",
                "path": "/verif/sa",
                "serves_properties": sorted(claimed),
                "kind_free_text": "repository-specific static analyser over the stdlib ast: program model (imports, "
                "class table, C3 MROs, literal folding, op registry, backend dispatch resolver), structured guard "
                "dominance, statement CFG with exceptional edges, def-use slices, finite abstract domains; "
                "nothing from /repo is imported or executed",
            }
        ],
        "checks": checks,
        "not_applicable": na,
        "notes": "Every check decides structural necessary conditions of its property on the current working tree "
        "(see DESIGN.md §3 for the clause list per property and what is declined). Exit 0 held / 1 VIOLATION / "
        "2 ANALYSIS-ERROR (anchor vanished or construct outside the analysed fragment). Known findings: "
        "/verif/known_findings.json. Thorough tier additionally runs the both-ways self-test (sa/selftest.py) of "
        "the rules serving the property.",
    }
    return man


def main():
    man = build()
    with open(os.path.join(VERIF, "MANIFEST.json"), "w") as f:
        json.dump(man, f, indent=1)
    print(f"wrote MANIFEST.json with {len(man['checks'])} checks, {len(man['not_applicable'])} not applicable")


if __name__ == "__main__":
    from sa.manifest import main as _main  # re-import under the package name so claims.py fills the same table

    _main()
