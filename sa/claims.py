"""Per-property claims: technique, what the check decides, what it does not (fills manifest.CLAIMS)."""

from .manifest import claim

GENERIC_NOTE = (
    "Trusted: the framework's own name resolution (imports, C3 MRO, literal folding), the frozen reference tables "
    "in sa/refs.py, Z3 itself. Monkey-patching at run time is not modelled."
)

claim(
    "C11",
    "guard dominance + field-set / dual agreement + parameter-forwarding dataflow over the frontend mixin stack (AST)",
    "Decides the cache discipline every history relies on: facts about the base constraint set are cached and "
    "consulted only without extra constraints; caches written by flag are read by the same flag; min/max layers are "
    "duals; positive caches are downgraded on add; every delegation forwards extra_constraints/signed/exact/n; "
    "pending constraints are flushed into the native solver at each query; only sanctioned code mutates a native "
    "solver. It does not decide the answers themselves.",
    "Not decided: correctness of Z3's answers, of the model evaluator and of constraint splitting. " + GENERIC_NOTE,
)
claim(
    "C14",
    "ownership typestate over _copy/_blank_copy + cooperative-super chain check over C3 MROs (AST)",
    "Decides that a branch shares no mutable container or sub-frontend with its parent, that _copy never writes the "
    "parent (except the COW ownership reset / provable no-ops), that every stateful field is carried, and that the "
    "copy chain reaches every mixin of every solver class exactly once.",
    "Not decided: leaks through native Z3 state beyond the finalize/clone protocol; behaviour of answers. " + GENERIC_NOTE,
)
claim(
    "C16",
    "local shape inference + guard dominance + dependence (AST)",
    "Decides that a cached core is a flat tuple of constraints cached together with the unsat decision, that "
    "unsat_core() answers () first when satisfiable, and that tracking pairs each original constraint with its "
    "converted term and survives copy/pickle.",
    "Not decided: that Z3's core is itself unsatisfiable (trusted). " + GENERIC_NOTE,
)
claim(
    "C17",
    "CFG with exceptional edges (must-pass-through), exception-class subsumption, who-may-call (AST)",
    "Decides that `unknown` always becomes an exception, that check() is called only where that mapping happens, "
    "that push() is matched by pop() on every normal and exceptional path, that only sanctioned code mutates the "
    "native solver, and that no non-re-raising handler can swallow a solver give-up or cache it as unsat.",
    "Not decided: the state of Z3 itself after an interrupt. " + GENERIC_NOTE,
)
claim(
    "C18",
    "field-set and tuple-shape agreement between __init__/__getstate__/__setstate__ over C3 MROs (AST)",
    "Decides that every field a frontend class initialises is restored or rebuilt on unpickling, that "
    "__getstate__/__setstate__ agree slot by slot and chain to the next class in every solver's MRO.",
    "Not decided: equality of answers after a round trip; cross-process hash stability. " + GENERIC_NOTE,
)
claim(
    "C26",
    "dependence / guard checks on the model-extraction functions (AST)",
    "Decides that model reads use model completion, that wide bit-vector values fall back to the decimal string, "
    "that the NaN-encoding quirk arm masks to the piece width and that the model hook filters to the solver's "
    "variables.",
    "Not decided: float reconstruction numerics. " + GENERIC_NOTE,
)
claim(
    "C19",
    "explicit-state model checking of a guarded-command model extracted from _enter_z3/_exit_z3 (AST), plus "
    "CFG pairing and who-may-write rules",
    "Decides the property for the extracted model: all interleavings at statement granularity with lock semantics "
    "of up to 3 threads, each performing any well-nested sequence of up to 3 enter/exit calls, GC initially on or "
    "off: GC is disabled whenever a call is in progress, the counter equals the number of calls in progress and is "
    "never negative, the collector's state is restored when the last call returns, the underflow branch is "
    "unreachable. Pairing of enter/exit in the condom wrapper on all normal and exceptional paths and exclusive "
    "ownership of the guard state are decided on the CFG / by who-may-write.",
    "The model is extracted from the source on every run (fragment: global, with <module lock>, if, assignment of "
    "constants / gc.isenabled(), += -=, gc.enable/disable, logging, return); a construct outside it is an "
    "ANALYSIS-ERROR. traces_validated_against_impl is 0: nothing is executed. Line granularity as the property "
    "states (an augmented assignment is one step). " + GENERIC_NOTE,
)
claim(
    "C12",
    "ownership typestate + CFG must-pass-through + guard dominance over CompositeFrontend (AST)",
    "Decides the copy-on-write discipline (a shared child receives constraints only after _claim, claimed children "
    "are stored back, neither side owns shared children after a branch, merge disowns, split hands out branches), "
    "that every query establishes satisfiability of all groups before delegating to the merged child, that "
    "UNSAT/UNKNOWN child answers propagate, plus the cache/forwarding/field rules shared with C11.",
    "Not decided: correctness of the partition computed by _split_constraints on runtime data, model "
    "re-absorption bookkeeping, the answers themselves. " + GENERIC_NOTE,
)
claim(
    "C13",
    "derived-cache/source pairing, guard dominance, polarity tables over Replacement/Hybrid frontends (AST)",
    "Decides that the replacement lookup cache is always re-seeded from the replacement table, that solver answers "
    "become replacements only under the opt-in flag (default off), that auto-replacements have the right polarity "
    "and direction and VSA bounds are intersected, that constraints always reach the inner frontend, and that the "
    "hybrid frontend uses the approximate side only when exact is False or in the opt-in approximate-first mode.",
    "Not decided: that VSA answers over-approximate (C21-C25) and that constraint_to_si's bounds are implied by the "
    "constraint. " + GENERIC_NOTE,
)
claim(
    "C15",
    "expression-tree shape and dependence checks on merge/combine/split (AST)",
    "Decides that merge pairs condition i with solver i of [self, *others] and builds Or over And(condition, "
    "*constraints) into a blank copy (ancestor.branch() + Or(conditions) with an ancestor), that combine adds every "
    "constraint set to a blank copy and carries models only across disjoint variable sets, that split builds one "
    "blank copy per independent group, returns all of them and restricts inherited models.",
    "Not decided: the groups computed by _split_constraints (graph computation on runtime data) and composite merge "
    "bookkeeping beyond pairing order. " + GENERIC_NOTE,
)
