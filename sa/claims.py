"""Per-property claims: technique, what the check decides, what it does not (fills manifest.CLAIMS)."""

from .manifest import claim

GENERIC_NOTE = (
    "Trusted: the framework's own name resolution (imports, C3 MRO, literal folding), the frozen reference tables "
    "in sa/refs.py, Z3 itself. Monkey-patching at run time is not modelled."
)

claim(
    "C11",
    "guard dominance + field-set / dual agreement + parameter-forwarding dataflow over the frontend mixin stack (AST)",
    "Decides the cache discipline every history relies on: facts about the base constraint set are cached and "
    "consulted only without extra constraints; caches written by flag are read by the same flag; min/max layers are "
    "duals; positive caches are downgraded on add; every delegation forwards extra_constraints/signed/exact/n; "
    "pending constraints are flushed into the native solver at each query; only sanctioned code mutates a native "
    "solver; an 'exhausted' mark is written only where the cached models cover the expression's variables, tested "
    "before the delegated search. It does not decide the answers themselves.",
    "Not decided: correctness of Z3's answers, of the model evaluator and of constraint splitting. Known findings: "
    "ConcreteHandlerMixin answers queries about concrete expressions without consulting the constraint set (by "
    "design); reuse_z3_solver mode shares a native solver. " + GENERIC_NOTE,
)
claim(
    "C14",
    "ownership typestate over _copy/_blank_copy + cooperative-super chain check over C3 MROs (AST)",
    "Decides that a branch shares no mutable container or sub-frontend with its parent, that _copy never writes the "
    "parent (except the COW ownership reset / provable no-ops), that every stateful field is carried, and that the "
    "copy chain reaches every mixin of every solver class exactly once.",
    "Not decided: leaks through native Z3 state beyond the finalize/clone protocol; behaviour of answers. " + GENERIC_NOTE,
)
claim(
    "C16",
    "local shape inference + guard dominance + dependence (AST)",
    "Decides that a cached core is a flat tuple of constraints cached together with the unsat decision, that "
    "unsat_core() answers () first when satisfiable and reads the native core only after a check statically bound to "
    "the native solver it holds, that tracking pairs each original constraint with its converted term position by "
    "position, that a tracked constraint is left unasserted only as the same formula (names come from a colliding "
    "32-bit hash), that the core is drawn from the solver's own constraints and a cloned solver's core is matched by "
    "formula, that the composite reads its concrete-False flag, and that the core fields survive copy/pickle but not "
    "a blank copy.",
    "Not decided: that Z3's core is itself unsatisfiable (trusted). " + GENERIC_NOTE,
)
claim(
    "C17",
    "CFG with exceptional edges (must-pass-through), exception-class subsumption, who-may-call (AST)",
    "Decides that `unknown` always becomes an exception, that check() is called only where that mapping happens, "
    "that push() is matched by pop() on every normal and exceptional path, that only sanctioned code mutates the "
    "native solver, and that no non-re-raising handler can swallow a solver give-up or cache it as unsat. Also: every method of BackendZ3 that asks the native solver runs inside the Z3 guard.",
    "Not decided: the state of Z3 itself after an interrupt. " + GENERIC_NOTE,
)
claim(
    "C18",
    "field-set and tuple-shape agreement between __init__/__getstate__/__setstate__ over C3 MROs (AST)",
    "Decides that every field a frontend class initialises is restored or rebuilt on unpickling - rebuilt blank only "
    "where blank means 'nothing known' -, that "
    "__getstate__/__setstate__ agree slot by slot and chain to the next class in every solver's MRO.",
    "Also: an unpickled composite owns no child; sorts and rounding modes enter AST hashes by their fields (hash keys "
    "are pickled). Not decided: equality of answers after a round trip; hash stability of user annotations. " + GENERIC_NOTE,
)
claim(
    "C26",
    "dependence / guard checks on the model-extraction functions (AST)",
    "Decides that model reads use model completion, that wide bit-vector values fall back to the decimal string, "
    "that the NaN-encoding quirk arm masks to the piece width and that the model hook filters to the solver's "
    "variables.",
    "Not decided: float reconstruction numerics. " + GENERIC_NOTE,
)
claim(
    "C19",
    "explicit-state model checking of a guarded-command model extracted from _enter_z3/_exit_z3 (AST), plus "
    "CFG pairing and who-may-write rules",
    "Decides the property for the extracted model: all interleavings at statement granularity with lock semantics "
    "of up to 3 threads, each performing any well-nested sequence of up to 3 enter/exit calls, GC initially on or "
    "off: GC is disabled whenever a call is in progress, the counter equals the number of calls in progress and is "
    "never negative, the collector's state is restored when the last call of every busy period returns (the "
    "application may switch the collector between busy periods), the underflow branch is unreachable. Pairing of enter/exit in the condom wrapper on all normal and exceptional paths and exclusive "
    "ownership of the guard state are decided on the CFG / by who-may-write.",
    "The model is extracted from the source on every run (fragment: global, with <module lock>, if, assignment of "
    "constants / gc.isenabled(), += -=, gc.enable/disable, logging, return); a construct outside it is an "
    "ANALYSIS-ERROR. traces_validated_against_impl is 0: nothing is executed. Line granularity as the property "
    "states (an augmented assignment is one step). " + GENERIC_NOTE,
)
claim(
    "C12",
    "ownership typestate + CFG must-pass-through + guard dominance over CompositeFrontend (AST)",
    "Decides the copy-on-write discipline (a shared child receives constraints only after _claim, claimed children "
    "are stored back, neither side owns shared children after a branch, merge disowns, split hands out branches), "
    "that every query establishes satisfiability of all groups before delegating to the merged child, that "
    "UNSAT/UNKNOWN child answers propagate, that the concrete-False flag (kept in no child) is read by split and merge, "
    "that an unpickled composite re-checks every child and owns none of them, that the merged remainder of a merge is "
    "filed over existing children only where it shares no variable with them, that simplify() carries every child's "
    "constraints over, plus the cache/forwarding/field rules shared with C11.",
    "Not decided: correctness of the partition computed by _split_constraints on runtime data, model "
    "re-absorption bookkeeping, the answers themselves. " + GENERIC_NOTE,
)
claim(
    "C13",
    "derived-cache/source pairing, guard dominance, polarity tables over Replacement/Hybrid frontends (AST)",
    "Decides that the replacement lookup cache is always re-seeded from the replacement table (on add_replacement "
    "under the caller's flag only), that no code outside the interval classes orders values against raw interval "
    "bounds, that solver answers "
    "become replacements only under the opt-in flag (default off), that auto-replacements have the right polarity "
    "and direction and VSA bounds are intersected, that constraints always reach the inner frontend - as written "
    "whenever a replacement stripped them of a variable - and that the "
    "hybrid frontend uses the approximate side only when exact is False or in the opt-in approximate-first mode. Also: every part HybridFrontend.split hands out gets sub-frontends of its own; substitution survives a divisor that became zero.",
    "Not decided: that VSA answers over-approximate (C21-C25) and that constraint_to_si's bounds are implied by the "
    "constraint. " + GENERIC_NOTE,
)
claim(
    "C15",
    "expression-tree shape and dependence checks on merge/combine/split (AST)",
    "Decides that merge pairs condition i with solver i of [self, *others] and builds Or over And(condition, "
    "*constraints) into a blank copy (ancestor.branch() + Or(conditions) with an ancestor), that combine adds every "
    "constraint set to a blank copy and carries models only across disjoint variable sets, that split builds one "
    "blank copy per independent group, returns all of them and restricts inherited models, and that the composite's "
    "split and merge honour a concrete False kept in its flag. Also: combine reads every operand's concrete-False flag; a merged remainder without variables is not filed as a child; common children of a merge are filed through _store_child; a child replaced by its parts leaves every name; a split-off part keeps the models it recorded itself.",
    "Not decided: the groups computed by _split_constraints (graph computation on runtime data) and composite merge "
    "bookkeeping beyond pairing order. " + GENERIC_NOTE,
)
claim(
    "C01",
    "table agreement over the op registry and the statically re-derived backend dispatch tables; guard dominance on "
    "op-shape facts (AST)",
    "Decides that the tables every construction, fold and translation goes through agree end to end: operator "
    "bindings per AST class (incl. reflected forms), opposites/inverse tables, the Not-rewrite arms, variadic "
    "reducers, the Z3 constructor and operand order of every op, the concrete operator/signedness/zero-divisor "
    "table, If()'s inline rewrites, and that the simplifier rewrites which are identities only under a side "
    "condition (merging nested shifts, the (e & m) ^ m mask test, flipping ~If(c, 1, 0), rotate-and-mask) are "
    "returned only where that condition dominates.",
    "Not decided: equivalence of the unconditional arithmetic rewrites in simplifications.py for every width and "
    "constant (needs a decision procedure - another family). " + GENERIC_NOTE,
)
claim(
    "C02",
    "table agreement and parameter-use dependence on the float handlers; abstract interpretation over the seven IEEE "
    "classes for the division-by-zero arm (AST)",
    "Decides the rounding-mode tables (decimal and Z3, round trip), that on every value-returning path of a concrete "
    "handler of an op with a rounding mode the value depends on the mode, or the mode is known to be the default, or an "
    "operand is known to be a special value (or the handler refuses to fold), that the sign of a zero is never taken by "
    "an order comparison, that comparisons/predicates/arithmetic delegate to the operator of "
    "the same meaning in operand order, that the fpToFP/fpToIEEEBV cancellations are guarded by sort/width "
    "agreement, that the ZeroDivisionError arm of concrete division yields the IEEE class for all 14 "
    "(numerator class, zero sign) pairs, and that float-to-integer conversions handle NaN and infinity.",
    "Not decided: that the arithmetic behind a mode-dependent path is the correctly rounded one (the exact-rational "
    "rounding added by fixes 24086db / 84b5d85 was validated against Z3 by a probe, which is not a registered check); "
    "remainder. " + GENERIC_NOTE,
)
claim(
    "C03",
    "taint dependence, exhaustiveness and table agreement on the string handlers (AST)",
    "Decides that no caller string reaches a regex pattern or int() unguarded, that every string op has a concrete "
    "and a Z3 handler of the declared arity with value-based equality, that each handler computes the reference "
    "operation with operands in the positions the Python/Z3 function expects, and that strings are encoded/decoded "
    "at the Z3 text boundary by an encoder that neutralises every escape form Z3 reads, and that a search in an "
    "operand-positioned slice is guarded against a start beyond the end. Also: a Python str compared with a Z3 term goes through the backend's encoder first; StrToInt/IntToStr convert in bounded pieces.",
    "Not decided: other index-arithmetic corner cases (Substr clipping at 2**64) beyond the reference shapes. " + GENERIC_NOTE,
)
claim(
    "C04",
    "op-shape fact dominance with access-path aliasing and dispatch-seeded entry facts; exception-class and "
    "shift-bound rules (AST)",
    "Decides that no comparison in Boolean context can be applied to an AST argument (every `P.args[i]` tested for "
    "truth is dominated by `P.op in S` with slot i primitive), that the concrete folding code raises only claripy "
    "errors and asserts nothing about operand values, that operand-derived left shifts are bounded by the width "
    "(concrete code) or by a dominating comparison (integer shifts in simplifiers by amounts taken out of an AST), "
    "that float-to-integer conversions handle NaN and infinity, and (shared) that no caller string reaches a regex "
    "pattern. Also: the concrete backend refuses the empty interval's missing value, the variadic Boolean simplifiers answer the empty operand list, slices at a shift amount are bounded by the width, float() of a rounded result happens strictly below the overflow threshold.",
    "Not decided: time and memory in general; implicit exceptions of builtins are not modelled. " + GENERIC_NOTE,
)
claim(
    "C05",
    "def-use agreement in Base.__new__, who-may-construct / who-may-override rules, width-table agreement (AST)",
    "Decides that what is hashed is what is stored and that symbolic/variables/depth derive from the children of "
    "those args - all AST arguments, on every path -, that make_like's metadata-copying fast path is reachable only "
    "with the receiver's own op/args and its slow path hands variables/symbolic over from a node only when the rebuilt "
    "op is that node's own, that replace_dict compares widths before substituting, "
    "that explicit metadata overrides happen only at sanctioned sites with the right values, that raw constructions "
    "pass a length, and that every sized op declares the width function its meaning requires.",
    "Not decided: that a concrete value is the value denoted (that is C01). " + GENERIC_NOTE,
)
claim(
    "C06",
    "field-set agreement, who-may-allocate, guard symmetry and taint (builtin hash) rules on the hash-cons "
    "machinery (AST)",
    "Decides that the identity fields agree across _calc_hash/_ast_serialize/__reduce__/_d, that AST objects are "
    "allocated only after a table lookup under the same hash, that secondary caches are written under the guard "
    "they are read under, that nothing feeding the structural hash goes through builtin hash(), and that every non-AST "
    "argument class of the op registry (sorts, rounding modes) is serialised by a branch of its own.",
    "Assumed: collision freedom of the 64-bit blake2b digest. " + GENERIC_NOTE,
)
claim(
    "C07",
    "must-pass-through (_handle_annotations) and dependence rules on every rewriting path (AST)",
    "Decides that every rewrite result (simplifier, eager fold, If() shortcuts) passes through _handle_annotations "
    "or keeps all arguments whole, that _handle_annotations vetoes on lost non-eliminatable annotations and "
    "relocates relocatable ones, that a simplifier claims 'already annotated' only for a result of "
    "_handle_annotations, that Base.__new__ (and make_like's fast path) inherit the non-eliminatable summary from "
    "every AST child unconditionally and the relocatable one unless skip_child_annotations, before hashing, that "
    "flattening refuses non-relocatable annotations, that explicit simplification re-attaches annotations, and that "
    "solvers simplify only constraints without SimplificationAvoidanceAnnotation.",
    "Not decided: behaviour of user-defined relocate(). " + GENERIC_NOTE,
)
claim(
    "C08",
    "who-may-consult, table and guard-dominance rules on the substitution / ITE utilities (AST)",
    "Decides that identical() is not answered by an approximating backend, that the switch encodings pair "
    "conditions and branches correctly and drop a case only when its value equals the accumulated else-branch, that "
    "a unique-element selection is dominated by a uniqueness guard, that replace/replace_dict type-check, rebuild "
    "with the parent's own op and memoise under the parent's hash, and that canonicalize never renames a variable "
    "the caller's map already knows. Also: ite_dict takes its median in the order the emitted comparison uses; ite_cases' skip test is stricter than IEEE equality; replace_dict's memo maps a visited node to its image and compares widths.",
    "Not decided: value-level equivalence of the outputs of excavate/burrow/chop/get_bytes. " + GENERIC_NOTE,
)
claim(
    "C09",
    "round-trip closure of the forward Z3 translation against op_map/op_type_map (table agreement, AST)",
    "Decides that the decl kind produced by each op's Z3 translation maps back to that op with the right AST "
    "class, that ops with non-AST parameters have a recovering arm which rebuilds the op of its own name with the "
    "children in order, that rounding modes round-trip, that ConstrainedFrontend.simplify keeps every constraint and "
    "is the only simplification site, that the composite's simplify() carries every child's constraints over, that "
    "tracked constraints are paired with their converted terms position by position, and that FullFrontend empties "
    "its pending-constraint list only where the native solver is dropped or was just given everything.",
    "Trusted: that Z3's simplifier preserves meaning; the frozen table of decl kinds per constructor. Not decided: "
    "which other kinds Z3's simplifier may emit. " + GENERIC_NOTE,
)
claim(
    "C10",
    "polarity table, fallback-value and memo-guard rules (AST)",
    "Decides that every cheap truth check tests the constant of its own name, that every non-backend exit returns "
    "False, that Backend.is_true/is_false memoise only extra-constraint-free answers under the structural hash with a "
    "literal-False cross entry, and that the Z3 checks do not depend on solver state.",
    "Trusted: that z3.simplify reaches `true` only for valid formulas. " + GENERIC_NOTE,
)
claim(
    "C20",
    "who-may-store (thread-local confinement), context-argument dependence, frozen shared-state list (AST)",
    "Decides that every Z3 handle / conversion cache of the backends lives in per-thread storage, that every Z3 "
    "entry point that cannot infer its context receives this thread's context (or an argument's), that process-wide "
    "mutable objects (containers, counters, ctypes cells) are a classified list, that per-thread slots are filled "
    "with objects created for that thread, that a frontend's native solver lives in its own threading.local(), and "
    "that process-wide weak-valued caches are read in one step (get / KeyError handler / lock), never check-then-get.",
    "Not decided: answer equality under real scheduling, races inside Z3. " + GENERIC_NOTE,
)
claim(
    "C21",
    "finite-domain abstract interpretation of extracted fragments (orderings of four bounds; three-valued "
    "booleans; divisibility sets and linear forms modulo 2**w over symbolic paths) + guard dominance for the shape "
    "clauses of modular interval arithmetic + operator-delegation table + dependence (AST)",
    "Decides soundness of the eight order comparisons for all inputs (per-piece verdict under every weak ordering "
    "of the four bounds, aggregation over every verdict combination), soundness of the three-valued connectives, "
    "the operator-to-transfer-function table, and these necessary conditions on every path: add/sub build the "
    "modular sum/difference of the right bounds with a stride dividing both strides, only under a no-overflow "
    "fact; the join's stride divides each operand's stride and offset; a stride written into a full interval is a "
    "power of two; ordering tests on a raw span are bounded below; truncation keeps a stride only under a "
    "no-wrap/divisibility guard; the sign-bit AND shortcut claims one value only with all members on one side; a "
    "right shift keeps a shifted stride only where 2**n divides it; shift ranges come from a non-wrapping amount "
    "only; left-shifted bounds become an interval only under a span fact; each bound gets its own sign fill; the "
    "remainder is x - (x div t)*t over the loop's pieces; every division by a stride is under a non-zero fact; a "
    "width is overwritten only on an object that cannot wrap; congruence tests use an upward modular distance; "
    "equality is definite only for equal single values or an operand compared with itself (not by name); lazily "
    "reversed operands are computed on unreversed only for operations that commute with the byte reversal, flags "
    "cleared; a value-determining field is written only on an object created during the call.",
    "Assumes each piece returned by _signed_bounds/_unsigned_bounds has lb <= ub and covers the members. Not "
    "decided: the numerics of mul/udiv/bitwise (Warren) and of the overflow predicates. Known finding: sdiv rounds "
    "mixed-sign quotients down (four existing tests pin that). " + GENERIC_NOTE,
)
claim(
    "C22",
    "divisibility abstract interpretation over the symbolic paths of the join and the widening + min/max polarity "
    "table (AST)",
    "Decides the lattice clause of 'the result contains both operands' for pseudo_join (both modes, hence "
    "least_upper_bound and union) and widen, for all inputs and on every path: the stride of the constructed result "
    "provably divides the stride of each operand that may hold several values and the modular offset of each "
    "operand's lower bound from the result's lattice; an operand is handed back unchanged only where the other is "
    "empty; a widening that moves both bounds to the extremes gives TOP; min/max fold the least lower / greatest "
    "upper bound of the pieces matching the requested signedness; membership of a constant counts strides round the "
    "circle; every signed bound handed out is converted and every listed value depends on the requested signedness; "
    "no query divides by a zero stride.",
    "Not decided (arithmetic over runtime bounds, declined): that the chosen bounds cover both operands, the "
    "twelve geometric meet cases and their Diophantine solver, exactness of eval / cardinality / membership. "
    "Two known findings: widen is unsound (both-bounds case and phase of the second operand). " + GENERIC_NOTE,
)
claim(
    "C23",
    "sibling agreement between interval-set / value-set operators and the member operations they lift (AST)",
    "Decides that reflected non-commutative operators do not compute the forward operation, that every "
    "element-wise lifted operation names an existing member operation of the same arity and unary minus / "
    "complement apply the member operator of the same meaning, that StridedInterval.__hash__ covers every "
    "value-determining field copy() carries, the bottom flag included (members live in a Python set and == is always "
    "truthy), and that value-set order comparisons "
    "answer Maybe with != the complement of == and per-region arithmetic applied to every region, and that where "
    "per-region offsets of two value-sets meet they are taken under one region key, never by position in the maps, and that union / widen record a plain operand also for a value set without regions.",
    "Not decided: per-member numerics (inherited from C21), collapse/normalisation. " + GENERIC_NOTE,
)
claim(
    "C24",
    "dispatch-table agreement for the VSA backend + guard dominance on If/annotation/query handlers (AST)",
    "Decides that the VSA column of the dispatch table sends every op to the transfer function of its meaning with "
    "operands in order and leaves ops without VSA meaning unsupported, that If joins unless one branch is "
    "impossible, that annotations become intervals with their own bounds at the object's width, that min/max fold "
    "the right bounds by signedness, and that the light frontend only answers unsat on a definitely false constraint. Also: == / != of two abstract Booleans is three-valued.",
    "Not decided: numerics inherited from C21. " + GENERIC_NOTE,
)
claim(
    "C25",
    "table agreement, polarity-of-names dataflow and guard dominance in the balancer (AST)",
    "Decides the comparison-info table and trivial assumptions, that less-than adds upper and greater-than lower "
    "bounds with the strictness adjustment in the right direction and bounds accumulate by max/min and are "
    "intersected, that min/max- and left/right-named locals are fed from the matching query / side, the De Morgan / "
    "single-disjunct unpacking rules, that 'unsatisfiable' is reported only under a definite test and only for the "
    "balancer's own unsat error, and that every balance rewrite f(x) OP c -> x OP g(c) is returned only under an "
    "operator restriction for which it is an implication or under a VSA range fact about the bits it discards - "
    "which carries unsigned comparisons and (in)equalities over, a signed one only as its unsigned counterpart "
    "where both sides agree on their high bits - and that no rebuilt bound is shifted arithmetically. Also: the Extract arm pads the constant to the operand's full width or does not fire; the shift arm needs facts about both the shifted-out bits and the constant's low bits; a guard that is a disjunction is a case split (the rewrite is justified in every arm), and how many values a query listed is not a fact about them.",
    "Not decided: the numeric content of the range facts and of g; the add/sub arms are known findings (no wrap "
    "condition). "
    + GENERIC_NOTE,
)
