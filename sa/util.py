"""Shared extraction helpers: attribute reads/writes on a receiver, super() calls,
simple shape classification of right-hand sides."""

from __future__ import annotations

import ast

from .core import AnalysisError, FuncTypes, dotted, walk_no_nested

MUTATORS = {
    "add",
    "append",
    "extend",
    "update",
    "clear",
    "discard",
    "remove",
    "pop",
    "popitem",
    "insert",
    "setdefault",
    "difference_update",
    "intersection_update",
    "symmetric_difference_update",
    "sort",
    "reverse",
}


def recv_attr(node, recv):
    """If node is `recv.X` return X else None."""
    if isinstance(node, ast.Attribute) and isinstance(node.value, ast.Name) and node.value.id == recv:
        return node.attr
    return None


def attr_root(node, recv):
    """For `recv.X.a.b[...]` return X (first attribute on the receiver), else None."""
    cur = node
    last = None
    while True:
        if isinstance(cur, ast.Attribute):
            last = cur
            cur = cur.value
        elif isinstance(cur, ast.Subscript):
            cur = cur.value
            last = None if not isinstance(cur, ast.Attribute) else last
        elif isinstance(cur, ast.Call):
            return None
        else:
            break
    if isinstance(cur, ast.Name) and cur.id == recv:
        # find the attribute directly on recv
        n = node
        found = None
        while isinstance(n, (ast.Attribute, ast.Subscript)):
            if isinstance(n, ast.Attribute) and isinstance(n.value, ast.Name) and n.value.id == recv:
                found = n.attr
            n = n.value
        return found
    return None


def _targets(t):
    if isinstance(t, (ast.Tuple, ast.List)):
        for e in t.elts:
            yield from _targets(e)
    elif isinstance(t, ast.Starred):
        yield from _targets(t.value)
    else:
        yield t


def attr_writes(fn, recv="self", nested=False):
    """Yield (attr, kind, stmt_or_expr_node, value_node) for writes through `recv`.
    kind in: assign, aug, mutate, subassign (recv.X[k] = v / recv.X.y = v), del."""
    it = ast.walk(fn) if nested else walk_no_nested(fn)
    for n in it:
        if isinstance(n, ast.Assign):
            for tt in n.targets:
                for t in _targets(tt):
                    a = recv_attr(t, recv)
                    if a is not None:
                        yield a, "assign", n, n.value
                    else:
                        r = attr_root(t, recv)
                        if r is not None:
                            yield r, "subassign", n, n.value
        elif isinstance(n, ast.AnnAssign):
            a = recv_attr(n.target, recv)
            if a is not None and n.value is not None:
                yield a, "assign", n, n.value
        elif isinstance(n, ast.AugAssign):
            a = recv_attr(n.target, recv)
            if a is not None:
                yield a, "aug", n, n.value
            else:
                r = attr_root(n.target, recv)
                if r is not None:
                    yield r, "subassign", n, n.value
        elif isinstance(n, ast.Delete):
            for t in n.targets:
                r = attr_root(t, recv)
                if r is not None:
                    yield r, "del", n, None
        elif isinstance(n, ast.Call) and isinstance(n.func, ast.Attribute) and n.func.attr in MUTATORS:
            r = attr_root(n.func.value, recv)
            if r is not None:
                yield r, "mutate", n, n
        elif isinstance(n, ast.NamedExpr):
            pass


def attr_reads(fn, recv="self", nested=True):
    """Yield (attr, node) for every load of recv.X."""
    it = ast.walk(fn) if nested else walk_no_nested(fn)
    for n in it:
        if (
            isinstance(n, ast.Attribute)
            and isinstance(n.ctx, ast.Load)
            and isinstance(n.value, ast.Name)
            and n.value.id == recv
        ):
            yield n.attr, n


def is_super_call(call, method=None):
    """super().m(...) -> m"""
    f = call.func
    if (
        isinstance(f, ast.Attribute)
        and isinstance(f.value, ast.Call)
        and isinstance(f.value.func, ast.Name)
        and f.value.func.id == "super"
    ):
        if method is None or f.attr == method:
            return f.attr
    return None


def explicit_base_call(call, method=None):
    """Base.m(self, ...) -> (Base-expr-text, m)"""
    f = call.func
    if isinstance(f, ast.Attribute) and call.args and isinstance(call.args[0], ast.Name) and call.args[0].id == "self":
        d = dotted(f.value)
        if d and d[0].isupper() or (d and "." in d and d.split(".")[-1][0].isupper()):
            if method is None or f.attr == method:
                return d, f.attr
    return None


def is_noop_body(fn):
    """Body consists only of docstring / pass / bare return / return None."""
    for st in fn.body:
        if isinstance(st, ast.Pass):
            continue
        if isinstance(st, ast.Expr) and isinstance(st.value, ast.Constant):
            continue
        if isinstance(st, ast.Return) and (
            st.value is None or (isinstance(st.value, ast.Constant) and st.value.value is None)
        ):
            continue
        return False
    return True


CONTAINER_CTORS = {
    "list",
    "set",
    "dict",
    "frozenset",
    "weakref.WeakSet",
    "weakref.WeakValueDictionary",
    "weakref.WeakKeyDictionary",
    "WeakSet",
    "WeakValueDictionary",
    "WeakKeyDictionary",
    "collections.OrderedDict",
    "OrderedDict",
    "collections.defaultdict",
    "defaultdict",
    "collections.deque",
    "deque",
    "bytearray",
}


def is_fresh_container(node):
    """Expression certainly evaluates to a freshly allocated container."""
    if isinstance(node, (ast.List, ast.Set, ast.Dict, ast.ListComp, ast.SetComp, ast.DictComp)):
        return True
    if isinstance(node, ast.Call):
        d = dotted(node.func)
        if d in CONTAINER_CTORS:
            return True
        if isinstance(node.func, ast.Attribute) and node.func.attr in ("copy", "deepcopy"):
            return True
        if d in ("copy.copy", "copy.deepcopy"):
            return True
    return False


def may_be_mutable_container(node):
    """Initial value that is (or may be) a mutable container."""
    if is_fresh_container(node):
        return True
    if isinstance(node, ast.BoolOp):
        return any(may_be_mutable_container(v) for v in node.values)
    if isinstance(node, ast.IfExp):
        return may_be_mutable_container(node.body) or may_be_mutable_container(node.orelse)
    return False


def func_param(fn, idx):
    a = fn.args.posonlyargs + fn.args.args
    return a[idx].arg if len(a) > idx else None


def kw(call, name):
    for k in call.keywords:
        if k.arg == name:
            return k.value
    return None


def defaults_of(fn):
    """param name -> default expr"""
    a = fn.args
    pos = a.posonlyargs + a.args
    out = {}
    for p, d in zip(pos[len(pos) - len(a.defaults):], a.defaults):
        out[p.arg] = d
    for p, d in zip(a.kwonlyargs, a.kw_defaults):
        if d is not None:
            out[p.arg] = d
    return out


def depends_on(expr, names, fn=None, depth=3):
    """Does `expr` syntactically mention one of `names`, following local single
    assignments in `fn` up to `depth` levels (flow-insensitive, over-approximating)."""
    seen = set()
    work = [(expr, 0)]
    assigns = {}
    if fn is not None:
        for n in walk_no_nested(fn):
            if isinstance(n, ast.Assign):
                for tt in n.targets:
                    for t in _targets(tt):
                        if isinstance(t, ast.Name):
                            assigns.setdefault(t.id, []).append(n.value)
            elif isinstance(n, ast.AugAssign) and isinstance(n.target, ast.Name):
                assigns.setdefault(n.target.id, []).append(n.value)
            elif isinstance(n, ast.NamedExpr) and isinstance(n.target, ast.Name):
                assigns.setdefault(n.target.id, []).append(n.value)
            elif isinstance(n, (ast.For, ast.comprehension)):
                for t in _targets(n.target):
                    if isinstance(t, ast.Name):
                        assigns.setdefault(t.id, []).append(n.iter)
            elif isinstance(n, ast.withitem) and n.optional_vars is not None:
                for t in _targets(n.optional_vars):
                    if isinstance(t, ast.Name):
                        assigns.setdefault(t.id, []).append(n.context_expr)
            elif isinstance(n, ast.Call) and isinstance(n.func, ast.Attribute) and isinstance(n.func.value, ast.Name) and n.func.attr in ("append", "extend", "add", "update", "insert", "appendleft"):
                # what is put into a container flows into it
                for a in n.args:
                    assigns.setdefault(n.func.value.id, []).append(a)
    while work:
        e, d = work.pop()
        for n in ast.walk(e):
            if isinstance(n, ast.Name):
                if n.id in names:
                    return True
                if d < depth and n.id in assigns and n.id not in seen:
                    seen.add(n.id)
                    for v in assigns[n.id]:
                        work.append((v, d + 1))
            elif isinstance(n, ast.Attribute):
                dd = dotted(n)
                if dd and dd in names:
                    return True
    return False


def clone(node):
    """Structural copy of an AST (sub)tree.  Unlike copy.deepcopy it does not follow the `_parent` back-links the
    loader adds (which would drag the whole module along)."""
    if isinstance(node, list):
        return [clone(x) for x in node]
    if isinstance(node, ast.AST):
        new = type(node).__new__(type(node))
        for f in node._fields:
            if hasattr(node, f):
                setattr(new, f, clone(getattr(node, f)))
        for a in ("lineno", "col_offset", "end_lineno", "end_col_offset"):
            if hasattr(node, a):
                setattr(new, a, getattr(node, a))
        return new
    return node


def local_assignments(fn):
    out = {}
    for n in walk_no_nested(fn):
        if isinstance(n, ast.Assign):
            for tt in n.targets:
                for t in _targets(tt):
                    if isinstance(t, ast.Name):
                        out.setdefault(t.id, []).append(n)
    return out


def resolve_locals(fn, rounds=4):
    """`fn` with every single-assignment local replaced by what it was computed from (to a fixpoint of `rounds`
    substitutions): conditions and calls then read in terms of parameters and access paths, whatever the
    intermediate locals were called or whether they existed at all."""
    for _ in range(rounds):
        new = inline_aliases(fn, lambda v: True)
        if new is fn:
            break
        fn = new
    return fn


def inline_aliases(fn, interesting):
    """Copy of `fn` in which single-assignment locals bound to an expression satisfying `interesting(expr)`
    are replaced by that expression at their uses (so `exhausted = self._a if s else self._b; exhausted[k] = v`
    is seen as `(self._a if s else self._b)[k] = v`).  Parent links and qualname/module tags are preserved."""
    import copy

    counts, defs = {}, {}
    # a parameter is bound on entry: an assignment to it is a second binding, never an alias definition
    if isinstance(fn, FuncTypes + (ast.Lambda,)):
        a_ = fn.args
        for p_ in [*a_.posonlyargs, *a_.args, *a_.kwonlyargs, *([a_.vararg] if a_.vararg else []), *([a_.kwarg] if a_.kwarg else [])]:
            counts[p_.arg] = 1
    for n in walk_no_nested(fn):
        if isinstance(n, (ast.With, ast.AsyncWith)):
            for it in n.items:
                if it.optional_vars is not None:
                    for t in ast.walk(it.optional_vars):
                        if isinstance(t, ast.Name):
                            counts[t.id] = counts.get(t.id, 0) + 2
        if isinstance(n, ast.ExceptHandler) and n.name:
            counts[n.name] = counts.get(n.name, 0) + 2
        if isinstance(n, ast.Assign):
            for tt in n.targets:
                for t in _targets(tt):
                    if isinstance(t, ast.Name):
                        counts[t.id] = counts.get(t.id, 0) + 1
                        if len(n.targets) == 1 and tt is t:
                            defs[t.id] = n.value
                # `a, b = X` (X an attribute / subscript path or a name): a is X[0], b is X[1]
                if len(n.targets) == 1 and isinstance(tt, (ast.Tuple, ast.List)) and isinstance(n.value, (ast.Attribute, ast.Subscript, ast.Name, ast.Call)):
                    for i, t in enumerate(tt.elts):
                        if isinstance(t, ast.Name):
                            defs[t.id] = ast.Subscript(value=n.value, slice=ast.Constant(value=i), ctx=ast.Load())
                # `a, b = (X, Y)`: elementwise (the right-hand sides are evaluated before any target is bound, so this
                # is only a renaming when no element reads one of the targets)
                if len(n.targets) == 1 and isinstance(tt, (ast.Tuple, ast.List)) and isinstance(n.value, (ast.Tuple, ast.List)) and len(tt.elts) == len(n.value.elts):
                    tnames = {t.id for t in tt.elts if isinstance(t, ast.Name)}
                    if not any(isinstance(x, ast.Name) and x.id in tnames for v in n.value.elts for x in ast.walk(v)):
                        for t, v in zip(tt.elts, n.value.elts):
                            if isinstance(t, ast.Name) and not isinstance(v, ast.Starred):
                                defs[t.id] = v
        elif isinstance(n, (ast.AugAssign, ast.For, ast.NamedExpr)):
            tg = n.target
            for t in _targets(tg):
                if isinstance(t, ast.Name):
                    counts[t.id] = counts.get(t.id, 0) + 2
        # (the targets of a comprehension live in the comprehension's own scope: they do not rebind a local of the
        # function, they shadow it inside the comprehension - see `shadow` below)
    # a local that is changed in place after its definition (digits = []; digits.append(..)) does not stand for the
    # expression it was bound to
    mutated = set()
    for n in walk_no_nested(fn):
        if isinstance(n, ast.Call) and isinstance(n.func, ast.Attribute) and isinstance(n.func.value, ast.Name) and n.func.attr in (
            "append", "extend", "add", "update", "insert", "pop", "remove", "clear", "sort", "reverse", "discard", "setdefault", "popitem", "appendleft", "extendleft",
        ):
            mutated.add(n.func.value.id)
        elif isinstance(n, (ast.Assign, ast.AugAssign, ast.Delete)):
            tgts = n.targets if isinstance(n, (ast.Assign, ast.Delete)) else [n.target]
            for t in tgts:
                if isinstance(t, ast.Subscript) and isinstance(t.value, ast.Name):
                    mutated.add(t.value.id)
    al = {k: v for k, v in defs.items() if counts.get(k) == 1 and k not in mutated and interesting(v)}
    if not al:
        return fn
    new = clone(fn)

    class T(ast.NodeTransformer):
        def __init__(self):
            self.shadow = []

        def _comp(self, n):
            bound = {t.id for g in n.generators for t in ast.walk(g.target) if isinstance(t, ast.Name)}
            # the first iterable is evaluated in the enclosing scope
            if n.generators:
                n.generators[0].iter = self.visit(n.generators[0].iter)
            self.shadow.append(bound)
            try:
                for i, g in enumerate(n.generators):
                    if i:
                        g.iter = self.visit(g.iter)
                    g.ifs = [self.visit(x) for x in g.ifs]
                if isinstance(n, ast.DictComp):
                    n.key = self.visit(n.key)
                    n.value = self.visit(n.value)
                else:
                    n.elt = self.visit(n.elt)
            finally:
                self.shadow.pop()
            return n

        visit_ListComp = visit_SetComp = visit_GeneratorExp = visit_DictComp = _comp

        def visit_Name(self, n):
            if isinstance(n.ctx, ast.Load) and n.id in al and not any(n.id in b for b in self.shadow):
                return ast.copy_location(clone(al[n.id]), n)
            return n

    T().visit(new)
    ast.fix_missing_locations(new)
    for node in ast.walk(new):
        for child in ast.iter_child_nodes(node):
            child._parent = node
    new._parent = getattr(fn, "_parent", None)
    for a in ("_qualname", "_module", "_class", "_inlined"):
        if hasattr(fn, a):
            setattr(new, a, getattr(fn, a))
    return new


def methods_of(cdef):
    return {st.name: st for st in cdef.body if isinstance(st, FuncTypes)}


# ----------------------------------------------------------------------------- alpha-equivalence (local names are not semantics)

import builtins as _builtins


def local_names(fn):
    """Names bound inside `fn` (assignment, loop / comprehension / with / walrus targets), excluding parameters and
    names declared global / nonlocal.  Renaming any of them consistently never changes behaviour."""
    cached = getattr(fn, "_local_names", None)
    if cached is not None:
        return cached
    params = set()
    if isinstance(fn, FuncTypes + (ast.Lambda,)):
        a = fn.args
        params = {x.arg for x in a.args + a.kwonlyargs + a.posonlyargs}
        if a.vararg:
            params.add(a.vararg.arg)
        if a.kwarg:
            params.add(a.kwarg.arg)
    declared, stores = set(), set()
    for n in ast.walk(fn):
        if isinstance(n, (ast.Global, ast.Nonlocal)):
            declared |= set(n.names)
        elif isinstance(n, ast.Name) and isinstance(n.ctx, (ast.Store, ast.Del)):
            stores.add(n.id)
    out = frozenset(stores - params - declared)
    try:
        fn._local_names = out
    except AttributeError:
        pass
    return out


def _enclosing_fn(node):
    p = node
    while p is not None and not isinstance(p, FuncTypes):
        p = getattr(p, "_parent", None)
    return p


def _parse_pattern(src):
    """A reference fragment in the same normal form as the code (it is wrapped into a function so that the
    function-level normal forms - adjacent temporaries - apply to multi-statement fragments too)."""
    from .core import _normalise

    wrapped = "def __pattern__():\n" + "\n".join("    " + ln for ln in src.split("\n"))
    try:
        mod = ast.parse(wrapped)
    except SyntaxError:
        mod = ast.parse(src)
        _normalise(mod)
        body = mod.body
    else:
        _normalise(mod)
        body = mod.body[0].body
    if len(body) == 1 and isinstance(body[0], ast.Expr):
        return body[0].value
    return body[0] if len(body) == 1 else body


def _alpha(a, b, locs, fwd, bwd):
    """a: node of the analysed code, b: pattern node.  Names that are locals of the analysed function bind
    consistently (bijection) to the pattern's names; everything else has to be identical."""
    if isinstance(a, list) and isinstance(b, list):
        return len(a) == len(b) and all(_alpha(x, y, locs, fwd, bwd) for x, y in zip(a, b))
    if type(a) is not type(b):
        return False
    if isinstance(a, ast.Name):
        if a.id in locs:
            if a.id in fwd or b.id in bwd:
                return fwd.get(a.id) == b.id and bwd.get(b.id) == a.id
            if hasattr(_builtins, b.id) and b.id != a.id:
                return False
            fwd[a.id] = b.id
            bwd[b.id] = a.id
            return True
        return a.id == b.id
    if isinstance(a, ast.AST):
        for f in a._fields:
            if f in ("ctx", "type_comment", "kind"):
                continue
            x, y = getattr(a, f, None), getattr(b, f, None)
            if isinstance(x, (ast.AST, list)):
                if not isinstance(y, type(x)) and not (isinstance(x, ast.AST) and isinstance(y, ast.AST)):
                    return False
                if not _alpha(x, y, locs, fwd, bwd):
                    return False
            elif x != y:
                return False
        return True
    return a == b


def alpha_eq(node, pattern, fn=None, binds=None):
    """Is `node` equal to `pattern` (source text or AST) up to a consistent renaming of the locals of its function?
    `binds`, when given, is a dict code-name -> pattern-name shared between several calls (and updated)."""
    fn = fn if fn is not None else _enclosing_fn(node if not isinstance(node, list) else node[0])
    locs = local_names(fn) if fn is not None else frozenset()
    pat = _parse_pattern(pattern) if isinstance(pattern, str) else pattern
    fwd = dict(binds) if binds else {}
    bwd = {v: k for k, v in fwd.items()}
    ok = _alpha(node, pat, locs, fwd, bwd)
    if ok and binds is not None:
        binds.update(fwd)
    return ok


def find_frag(node, pattern, fn=None, binds=None):
    """First sub-tree of `node` that is alpha-equal to `pattern` (None if there is none).  A pattern of several
    statements matches consecutive statements of one block (the first of them is returned)."""
    pat = _parse_pattern(pattern) if isinstance(pattern, str) else pattern
    roots = node if isinstance(node, list) else [node]
    if isinstance(pat, list):
        for r in roots:
            for holder in ast.walk(r):
                for fld in ("body", "orelse", "finalbody"):
                    blk = getattr(holder, fld, None)
                    if not (isinstance(blk, list) and blk and isinstance(blk[0], ast.stmt)):
                        continue
                    for i in range(len(blk) - len(pat) + 1):
                        trial = dict(binds) if binds is not None else {}
                        if all(type(a) is type(b) and alpha_eq(a, b, fn, trial) for a, b in zip(blk[i : i + len(pat)], pat)):
                            if binds is not None:
                                binds.update(trial)
                            return blk[i]
        return None
    for r in roots:
        for sub in ast.walk(r):
            if type(sub) is type(pat) and alpha_eq(sub, pat, fn, binds):
                return sub
    return None


def has_frag(node, pattern, fn=None, binds=None, share=None):
    """`share`: pattern names whose binding is kept in `binds` after a match (default: all); use it to keep
    comprehension / loop variables of one fragment from constraining the next."""
    if binds is None or share is None:
        return find_frag(node, pattern, fn, binds) is not None
    bb = dict(binds)
    if find_frag(node, pattern, fn, bb) is None:
        return False
    binds.update({k: v for k, v in bb.items() if v in share})
    return True


def anon(node, fn=None):
    """Source text of `node` with the locals of its function replaced by positional placeholders (_1, _2, ... in
    order of first occurrence): a key that survives renaming."""
    import copy

    fn = fn if fn is not None else _enclosing_fn(node)
    locs = local_names(fn) if fn is not None else frozenset()
    m = {}

    class T(ast.NodeTransformer):
        def visit_Name(self, n):
            if n.id in locs:
                m.setdefault(n.id, f"_{len(m) + 1}")
                return ast.copy_location(ast.Name(id=m[n.id], ctx=n.ctx), n)
            return n

    return ast.unparse(ast.fix_missing_locations(T().visit(clone(node))))


def rename_locals(fn, mapping):
    """Deep copy of `fn` with locals renamed (code name -> canonical name); parent links and tags are preserved.
    Used to put a function into the naming a rule's reference shapes are written in, after the rule has identified
    the locals by their *role* (what they are assigned from / how they are used)."""
    import copy

    mapping = {k: v for k, v in mapping.items() if k and v and k != v}
    if not mapping:
        return fn
    new = clone(fn)
    taken = {n.id for n in ast.walk(new) if isinstance(n, ast.Name)} - set(mapping)
    for v in mapping.values():
        if v in taken:
            # the canonical name is used for something else here: move that out of the way first
            for n in ast.walk(new):
                if isinstance(n, ast.Name) and n.id == v:
                    n.id = v + "__other"
    for n in ast.walk(new):
        if isinstance(n, ast.Name) and n.id in mapping:
            n.id = mapping[n.id]
    for node in ast.walk(new):
        for child in ast.iter_child_nodes(node):
            child._parent = node
    new._parent = getattr(fn, "_parent", None)
    for a in ("_qualname", "_module", "_class", "_inlined"):
        if hasattr(fn, a):
            setattr(new, a, getattr(fn, a))
    return new


def _header_only(p):
    return isinstance(p, (ast.For, ast.While, ast.If, ast.With)) and len(p.body) == 1 and isinstance(p.body[0], ast.Expr) and isinstance(p.body[0].value, ast.Constant) and p.body[0].value.value is Ellipsis


def canonicalise(fn, patterns, required=False):
    """Put the locals of `fn` into the naming the rule's reference shapes use, identifying each local by its *role*:
    `patterns` are reference statements (source text, written with the canonical names); each is alpha-matched, in
    order and with cumulative bindings, against the statements of `fn`.  A compound statement whose body is `...`
    matches on its header only (`for c, v in reversed(list(cases)): ...`).  Returns (copy of fn with the bound locals
    renamed, set of canonical names that were found).  Locals whose pattern does not match keep their names - the
    rule's own checks then decide what that means."""
    binds = {}
    found = set()
    stmts = [n for n in ast.walk(fn) if isinstance(n, ast.stmt) and n is not fn]
    for src in patterns:
        pat = _parse_pattern(src)
        hit = False
        for st in stmts:
            if type(st) is not type(pat):
                continue
            trial = dict(binds)
            if _header_only(pat):
                ok = True
                for f in ("target", "iter", "test", "items"):
                    if hasattr(pat, f):
                        ok = ok and alpha_eq(getattr(st, f), getattr(pat, f), fn, trial)
            else:
                ok = alpha_eq(st, pat, fn, trial)
            if ok:
                # variables bound inside a comprehension of the pattern are private to it
                private = {t.id for c in ast.walk(pat) if isinstance(c, ast.comprehension) for t in ast.walk(c.target) if isinstance(t, ast.Name)}
                binds = {k: v for k, v in trial.items() if v not in private or k in binds}
                hit = True
                break
        if hit:
            found |= {x.id for x in ast.walk(pat) if isinstance(x, ast.Name)}
        elif required:
            raise AnalysisError(f"{getattr(fn, '_qualname', fn.name)}: reference statement `{src}` not found")
    return rename_locals(fn, binds), found


class Frags:
    """Reference fragments of one function, matched up to renaming of its locals, with cumulative bindings: the
    first fragment that mentions a local fixes which code name plays that role, later fragments have to agree.
    Variables bound inside a comprehension of a fragment stay private to that fragment."""

    def __init__(self, fn):
        self.fn = fn
        self.b = {}  # code name -> reference name

    def find(self, src, within=None):
        pat = _parse_pattern(src)
        private = set()
        if not isinstance(pat, list):
            private = {t.id for c in ast.walk(pat) if isinstance(c, ast.comprehension) for t in ast.walk(c.target) if isinstance(t, ast.Name)}
        trial = dict(self.b)
        # a scope that is not part of the function (a helper's body from reach()) brings its own locals
        scope_fn = within if within is not None and isinstance(within, ast.Module) else self.fn
        hit = find_frag(within if within is not None else self.fn, pat, scope_fn, trial)
        if hit is not None:
            self.b.update({k: v for k, v in trial.items() if v not in private})
        return hit

    def has(self, src, within=None):
        return self.find(src, within) is not None

    def all(self, *srcs):
        return all(self.has(s) for s in srcs)

    def code(self, ref_name):
        """the code's name for the local that plays the role `ref_name` (the reference name itself if unbound)"""
        for k, v in self.b.items():
            if v == ref_name:
                return k
        return ref_name

    def canon(self, node):
        """source text of `node` in the reference naming"""
        import copy

        b = self.b

        class T(ast.NodeTransformer):
            def visit_Name(self, n):
                if n.id in b:
                    return ast.copy_location(ast.Name(id=b[n.id], ctx=n.ctx), n)
                return n

        return ast.unparse(ast.fix_missing_locations(T().visit(clone(node))))


def positive_ifs(fn):
    """Copy of `fn` in which every two-armed `if not X: A else: B` (statement or expression) is written
    `if X: B else: A`: which arm comes first is not semantics."""

    class T(ast.NodeTransformer):
        def visit_If(self, n):
            self.generic_visit(n)
            if isinstance(n.test, ast.UnaryOp) and isinstance(n.test.op, ast.Not) and n.orelse and not (len(n.orelse) == 1 and isinstance(n.orelse[0], ast.If)):
                n.test, n.body, n.orelse = n.test.operand, n.orelse, n.body
            return n

        def visit_IfExp(self, n):
            self.generic_visit(n)
            if isinstance(n.test, ast.UnaryOp) and isinstance(n.test.op, ast.Not):
                n.test, n.body, n.orelse = n.test.operand, n.orelse, n.body
            return n

    new = T().visit(clone(fn))
    ast.fix_missing_locations(new)
    for node in ast.walk(new):
        for child in ast.iter_child_nodes(node):
            child._parent = node
    new._parent = getattr(fn, "_parent", None)
    for a in ("_qualname", "_module", "_class", "_inlined"):
        if hasattr(fn, a):
            setattr(new, a, getattr(fn, a))
    return new


def attr_writes_deep(fn, methods, recv="self", depth=2):
    """attr_writes of `fn` plus those of the same-class helpers it calls as `self.helper(...)` (to `depth` levels):
    moving a block of assignments into a private helper method does not change what the method writes."""
    out = list(attr_writes(fn, recv))
    seen = {getattr(fn, "name", None)}
    frontier = [fn]
    for _ in range(depth):
        nxt = []
        for f in frontier:
            for c in (x for x in walk_no_nested(f) if isinstance(x, ast.Call)):
                if isinstance(c.func, ast.Attribute) and isinstance(c.func.value, ast.Name) and c.func.value.id == recv and c.func.attr in methods and c.func.attr not in seen:
                    seen.add(c.func.attr)
                    callee = methods[c.func.attr]
                    crecv = callee.args.args[0].arg if callee.args.args else recv
                    out += list(attr_writes(callee, crecv))
                    nxt.append(callee)
        frontier = nxt
    return out


def inline_trivial_helpers(fn, methods, recv="self"):
    """Copy of `fn` in which calls `self.helper(a, ..)` to same-class methods whose whole body is `return <expr>` are
    replaced by that expression (parameters substituted): extracting an expression into a one-line private helper
    does not change the caller."""
    table = {}
    for name, m in methods.items():
        body = [s for s in m.body if not (isinstance(s, ast.Expr) and isinstance(s.value, ast.Constant))]
        if len(body) == 1 and isinstance(body[0], ast.Return) and body[0].value is not None and m is not fn:
            params = [a.arg for a in m.args.args]
            if not m.args.vararg and not m.args.kwarg and not m.args.kwonlyargs and not any(dotted(d) in ("property", "staticmethod", "classmethod") for d in m.decorator_list):
                table[name] = (params, body[0].value)
    if not table:
        return fn
    hit = [False]

    class T(ast.NodeTransformer):
        def visit_Call(self, n):
            self.generic_visit(n)
            f = n.func
            if isinstance(f, ast.Attribute) and isinstance(f.value, ast.Name) and f.value.id == recv and f.attr in table and not n.keywords:
                params, expr = table[f.attr]
                if len(n.args) == len(params) - 1:
                    sub = dict(zip(params[1:], n.args))
                    sub[params[0]] = ast.Name(id=recv, ctx=ast.Load())

                    class S(ast.NodeTransformer):
                        def visit_Name(self, x):
                            if x.id in sub:
                                return clone(sub[x.id])
                            return x

                    hit[0] = True
                    return ast.copy_location(S().visit(clone(expr)), n)
            return n

    new = T().visit(clone(fn))
    if not hit[0]:
        return fn
    ast.fix_missing_locations(new)
    for node in ast.walk(new):
        for child in ast.iter_child_nodes(node):
            child._parent = node
    new._parent = getattr(fn, "_parent", None)
    for a in ("_qualname", "_module", "_class", "_inlined"):
        if hasattr(fn, a):
            setattr(new, a, getattr(fn, a))
    return new


# ----------------------------------------------------------------------------- interprocedural: private helpers


def _simple_arg(a):
    return isinstance(a, (ast.Name, ast.Constant)) or (isinstance(a, (ast.Attribute, ast.Subscript)) and _simple_arg(a.value) and (not isinstance(a, ast.Subscript) or _simple_arg(a.slice)))


def _return_chain(body):
    """`if c1: return A` / `if c2: return B` / ... / `return Z` (each arm nothing but a return of a value, `else` arms
    of the same kind allowed) as the conditional expression `A if c1 else B if c2 else Z`; None for any other body"""
    if not body:
        return None
    st = body[0]
    if isinstance(st, ast.Return) and st.value is not None and len(body) == 1:
        return st.value
    if isinstance(st, ast.If):
        then = _return_chain(st.body)
        if then is None:
            return None
        rest = _return_chain(st.orelse) if st.orelse else _return_chain(body[1:])
        if st.orelse and len(body) > 1:
            return None
        if rest is None:
            return None
        return ast.IfExp(test=st.test, body=then, orelse=rest)
    return None


def _prefix_chain(body):
    """(straight-line prefix without returns or nested definitions, return chain as a conditional expression) for a
    helper body `assignments..; if c1: return A; ...; return Z`; None for any other body"""
    for k in range(len(body)):
        pre = body[:k]
        if any(isinstance(n, (ast.Return, ast.Yield, ast.YieldFrom, ast.Lambda) + FuncTypes) for s in pre for n in ast.walk(s)):
            return None
        if not all(isinstance(s, (ast.Assign, ast.AnnAssign, ast.AugAssign, ast.Expr)) for s in pre):
            return None
        chain = _return_chain(body[k:])
        if chain is not None:
            return pre, chain
    return None


def _none_test(st, name):
    """'isnot' / 'is' when `st` is `if <name> is not None:` / `if <name> is None:`, else None"""
    if not isinstance(st, ast.If):
        return None
    t = st.test
    if isinstance(t, ast.Compare) and len(t.ops) == 1 and isinstance(t.left, ast.Name) and t.left.id == name and isinstance(t.comparators[0], ast.Constant) and t.comparators[0].value is None:
        if isinstance(t.ops[0], ast.IsNot):
            return "isnot"
        if isinstance(t.ops[0], ast.Is):
            return "is"
    return None


def _chain_leaves(e):
    if isinstance(e, ast.IfExp):
        return _chain_leaves(e.body) + _chain_leaves(e.orelse)
    return [e]


def _helper_shape(h):
    """('expr', E) for `return E`; ('stmts', body, E|None) when the only return is the last statement; None otherwise"""
    body = [s for s in h.body if not (isinstance(s, ast.Expr) and isinstance(s.value, ast.Constant))]
    if not body:
        return None
    rets = [n for s in body for n in ast.walk(s) if isinstance(n, ast.Return)]
    nested_defs = any(isinstance(n, FuncTypes + (ast.Lambda,)) for s in body for n in ast.walk(s))
    if h.args.vararg or h.args.kwarg or any(isinstance(n, (ast.Yield, ast.YieldFrom)) for s in body for n in ast.walk(s)):
        return None
    if len(body) == 1 and isinstance(body[0], ast.Return) and body[0].value is not None:
        return ("expr", body[0].value)
    chain = _return_chain(body)
    if chain is not None:
        return ("expr", chain, "chain")
    if nested_defs:
        return None
    if not rets:
        return ("stmts", body, None)
    if len(rets) == 1 and rets[0] is body[-1]:
        return ("stmts", body[:-1], rets[0].value)
    return None


def inline_helpers(fn, resolve, depth=2):
    """Copy of `fn` in which calls to *private helpers* are replaced by the helpers' bodies, so that moving a block or
    an expression into a helper (or back) does not change what a rule sees.  `resolve(call)` returns
    (FunctionDef, bound-receiver-expr-or-None) for a call to a helper of the same class / module, else None.
    Handled shapes: a helper that is one `return <expr>` (inlined as an expression anywhere); a helper whose only
    `return` is its last statement, called as a statement, as `x = helper(..)` or as `return helper(..)`.
    Arguments that are not simple names / paths are bound to fresh locals first; the helper's own locals are
    renamed apart."""
    counter = [0]
    inlined = set()

    def bind(h, call, recv):
        params = [a.arg for a in h.args.posonlyargs + h.args.args]
        args = list(call.args)
        if recv is not None:
            args = [recv, *args]
        if len(args) > len(params):
            return None
        sub, pre = {}, []
        given = dict(zip(params, args))
        for k in call.keywords:
            if k.arg is None or k.arg not in params + [a.arg for a in h.args.kwonlyargs]:
                return None
            given[k.arg] = k.value
        defaults = dict(zip(params[len(params) - len(h.args.defaults) :], h.args.defaults))
        for a, d in zip(h.args.kwonlyargs, h.args.kw_defaults):
            if d is not None:
                defaults[a.arg] = d
        for p in params + [a.arg for a in h.args.kwonlyargs]:
            v = given.get(p, defaults.get(p))
            if v is None:
                return None
            if _simple_arg(v):
                sub[p] = v
            else:
                counter[0] += 1
                tmp = f"{p}__arg{counter[0]}"
                pre.append(ast.Assign(targets=[ast.Name(id=tmp, ctx=ast.Store())], value=clone(v), lineno=call.lineno, col_offset=0))
                sub[p] = ast.Name(id=tmp, ctx=ast.Load())
        inlined.add(h.name)
        # helper locals renamed apart
        counter[0] += 1
        for loc in local_names(h):
            if loc not in sub:
                sub[loc] = ast.Name(id=f"{loc}__h{counter[0]}", ctx=ast.Load())
        return sub, pre

    def subst(node, sub):
        class S(ast.NodeTransformer):
            def visit_Name(self, x):
                if x.id in sub:
                    r = clone(sub[x.id])
                    if isinstance(r, ast.Name):
                        r.ctx = x.ctx
                    return ast.copy_location(r, x)
                return x

        return S().visit(clone(node))

    def at(node, like):
        for n in ast.walk(node):
            if isinstance(n, (ast.stmt, ast.expr)) and not hasattr(n, "lineno"):
                n.lineno = getattr(like, "lineno", 0)
                n.col_offset = getattr(like, "col_offset", 0)
        return node

    changed = [False]

    def expand_block(stmts, level, loop_body=False):
        out = []
        skip = set()
        for idx_, st in enumerate(stmts):
            if idx_ in skip:
                continue
            # recurse into compound statements first
            for fld in ("body", "orelse", "finalbody"):
                b = getattr(st, fld, None)
                if isinstance(b, list) and b and isinstance(b[0], ast.stmt):
                    setattr(st, fld, expand_block(b, level, loop_body=isinstance(st, (ast.For, ast.While)) and fld == "body"))
            for hdl in getattr(st, "handlers", []) or []:
                hdl.body = expand_block(hdl.body, level)
            for cs in getattr(st, "cases", []) or []:
                cs.body = expand_block(cs.body, level)
            call = None
            kind = None
            if isinstance(st, ast.Expr) and isinstance(st.value, ast.Call):
                call, kind = st.value, "stmt"
            elif isinstance(st, ast.Assign) and isinstance(st.value, ast.Call) and len(st.targets) == 1:
                call, kind = st.value, "assign"
            elif isinstance(st, ast.Return) and isinstance(st.value, ast.Call):
                call, kind = st.value, "return"
            done = False
            if call is not None:
                r = resolve(call)
                if r is not None:
                    h, recv = r
                    shape = _helper_shape(h)
                    if shape is None and kind == "stmt" and loop_body and idx_ == len(stmts) - 1:
                        # the helper is the whole tail of a loop body: its bare `return`s are the loop's `continue`s
                        hb = [s_ for s_ in h.body if not (isinstance(s_, ast.Expr) and isinstance(s_.value, ast.Constant))]
                        rets_ = [n_ for s_ in hb for n_ in ast.walk(s_) if isinstance(n_, ast.Return)]
                        inner_loops = any(isinstance(n_, (ast.For, ast.While)) and any(isinstance(r_, ast.Return) for r_ in ast.walk(n_)) for s_ in hb for n_ in ast.walk(s_))
                        if hb and all(r_.value is None for r_ in rets_) and not inner_loops and not h.args.vararg and not h.args.kwarg and not any(isinstance(n_, FuncTypes + (ast.Lambda, ast.Yield, ast.YieldFrom)) for s_ in hb for n_ in ast.walk(s_)):
                            b = bind(h, call, recv)
                            if b is not None:
                                sub, pre = b

                                class RC(ast.NodeTransformer):
                                    def visit_Return(self, n_):
                                        return ast.copy_location(ast.Continue(), n_)

                                body = [at(RC().visit(subst(s_, sub)), st) for s_ in hb]
                                out += [at(p_, st) for p_ in pre] + body
                                changed[0] = True
                                continue
                    if (shape is None or (shape[0] == "expr" and len(shape) == 3)) and kind == "return":
                        # `return helper(..)`: every return of the helper is a return of the caller
                        hb = [s_ for s_ in h.body if not (isinstance(s_, ast.Expr) and isinstance(s_.value, ast.Constant))]
                        if hb and not h.args.vararg and not h.args.kwarg and not any(isinstance(n_, FuncTypes + (ast.Lambda, ast.Yield, ast.YieldFrom)) for s_ in hb for n_ in ast.walk(s_)):
                            b = bind(h, call, recv)
                            if b is not None:
                                sub, pre = b
                                body = [at(subst(s_, sub), st) for s_ in hb]
                                if level > 1:
                                    body = expand_block(body, level - 1)
                                out += [at(p_, st) for p_ in pre] + body
                                changed[0] = True
                                continue
                    if kind == "assign" and isinstance(st.targets[0], ast.Name) and (shape is None or (shape[0] == "expr" and len(shape) == 3)):
                        # `v = helper(..)` with a helper that is assignments + a chain of returns: the chain becomes an
                        # if-chain that assigns v.  Where some arm returns None and the next statement tests v against
                        # None (the helper hands back "nothing" or a value), that statement is decided in the None arms
                        # and repeated in the others, so that what it guards is read under the helper's conditions
                        hb = [s_ for s_ in h.body if not (isinstance(s_, ast.Expr) and isinstance(s_.value, ast.Constant))]
                        pc = _prefix_chain(hb) if not h.args.vararg and not h.args.kwarg else None
                        tgt = st.targets[0].id
                        nxt = stmts[idx_ + 1] if idx_ + 1 < len(stmts) else None
                        nt = _none_test(nxt, tgt) if nxt is not None else None
                        has_none = pc is not None and any(isinstance(l_, ast.Constant) and l_.value is None for l_ in _chain_leaves(pc[1]))
                        if pc is not None and ((nt is not None and has_none) or shape is None):
                            b = bind(h, call, recv)
                            if b is not None:
                                sub, pre = b
                                prefix = [at(subst(s_, sub), st) for s_ in pc[0]]
                                dup = nt is not None and has_none

                                def leaf(e_):
                                    asg = ast.Assign(targets=[ast.Name(id=tgt, ctx=ast.Store())], value=e_)
                                    if not dup:
                                        return [asg]
                                    if isinstance(e_, ast.Constant) and e_.value is None:
                                        return [asg, *clone(nxt.orelse if nt == "isnot" else nxt.body)]
                                    return [asg, clone(nxt)]

                                def arms(e_):
                                    if isinstance(e_, ast.IfExp):
                                        return [ast.If(test=e_.test, body=arms(e_.body), orelse=arms(e_.orelse))]
                                    return leaf(e_)

                                body = [at(x_, st) for x_ in arms(subst(pc[1], sub))]
                                if level > 1:
                                    body = expand_block(body, level - 1)
                                out += [at(p_, st) for p_ in pre] + prefix + body
                                if dup:
                                    skip.add(idx_ + 1)
                                changed[0] = True
                                continue
                    if shape is not None and shape[0] == "expr":
                        # the call is the statement's whole value: arguments that are not simple are evaluated first
                        # anyway, so binding them to fresh locals in front of the statement keeps the order
                        b = bind(h, call, recv)
                        if b is not None and b[1]:
                            sub, pre = b
                            st.value = at(subst(shape[1], sub), st)
                            out += [at(p_, st) for p_ in pre]
                            changed[0] = True
                    if shape is not None and shape[0] == "stmts" and (kind != "stmt" or True):
                        b = bind(h, call, recv)
                        if b is not None and not (kind == "stmt" and False):
                            sub, pre = b
                            body = [at(subst(s, sub), st) for s in shape[1]]
                            if level > 1:
                                body = expand_block(body, level - 1)
                            tail = []
                            if kind == "assign":
                                if shape[2] is None:
                                    tail = [ast.Assign(targets=st.targets, value=ast.Constant(value=None))]
                                else:
                                    tail = [ast.Assign(targets=st.targets, value=subst(shape[2], sub))]
                            elif kind == "return":
                                tail = [ast.Return(value=subst(shape[2], sub) if shape[2] is not None else None)]
                            elif shape[2] is not None:
                                tail = [ast.Expr(value=subst(shape[2], sub))]
                            out += [at(p, st) for p in pre] + body + [ast.copy_location(at(t, st), st) for t in tail]
                            changed[0] = True
                            done = True
            if not done:
                out.append(st)
        return out

    class E(ast.NodeTransformer):
        """expression helpers, anywhere"""

        def visit_Call(self, n):
            self.generic_visit(n)
            r = resolve(n)
            if r is None:
                return n
            h, recv = r
            shape = _helper_shape(h)
            if shape is None or shape[0] != "expr":
                return n
            b = bind(h, n, recv)
            if b is None or b[1]:
                return n  # would need statements: leave the call
            changed[0] = True
            return ast.copy_location(at(subst(shape[1], b[0]), n), n)

    new = clone(fn)
    for _ in range(depth):
        before = changed[0]
        changed[0] = False
        new.body = expand_block(new.body, 1)
        new = E().visit(new)
        if not changed[0]:
            changed[0] = before
            break
        changed[0] = True
    if not changed[0]:
        return fn
    ast.fix_missing_locations(new)
    for node in ast.walk(new):
        for child in ast.iter_child_nodes(node):
            child._parent = node
    new._parent = getattr(fn, "_parent", None)
    for a in ("_qualname", "_module", "_class", "_inlined"):
        if hasattr(fn, a):
            setattr(new, a, getattr(fn, a))
    new._inlined = frozenset(inlined)  # names of the helpers whose bodies are now part of this function
    return new


def helper_resolver(tree, mod, cls=None, only_private=True, exclude=()):
    """resolve(call) for inline_helpers: `self.m(..)` / `Cls.m(..)` / `cls.m(..)` to methods of `cls`, bare `f(..)` to
    module-level functions of `mod` - private ones (leading underscore, not dunder) unless told otherwise."""
    methods = methods_of(cls) if cls is not None else {}
    cname = cls.name if cls is not None else None

    def ok(name):
        return name not in exclude and (not only_private or (name.startswith("_") and not name.startswith("__")))

    def is_static(m):
        return any(dotted(d) == "staticmethod" for d in m.decorator_list)

    def resolve(call):
        f = call.func
        if isinstance(f, ast.Attribute) and isinstance(f.value, ast.Name) and f.attr in methods and ok(f.attr):
            m = methods[f.attr]
            if any(dotted(d) in ("property", "classmethod") for d in m.decorator_list):
                return None
            if f.value.id == "self" and not is_static(m):
                return m, ast.Name(id="self", ctx=ast.Load())
            if f.value.id in ("self", cname) and is_static(m):
                return m, None
            return None
        if isinstance(f, ast.Name) and ok(f.id):
            h = mod.functions.get(f.id)
            if h is not None and isinstance(h, FuncTypes):
                return h, None
        return None

    return resolve


def value_arms(fn, subject):
    """Arms of a dispatch on `subject` (source text), written as an if-chain (`subject == V`, `subject in (V, W)`) or
    as match/case: {text of V: [statements that run only under that value]} for `return` / `raise` statements and
    expression statements, found through the guard facts (so nesting and order do not matter)."""
    from . import guards

    out = {}
    for st in walk_no_nested(fn):
        if not isinstance(st, (ast.Return, ast.Raise, ast.Expr, ast.Assign)):
            continue
        for t, pol in guards.guards_of(st):
            if not pol:
                continue
            vals = []
            if isinstance(t, ast.Compare) and len(t.ops) == 1 and ast.unparse(t.left) == subject:
                c = t.comparators[0]
                if isinstance(t.ops[0], (ast.Eq, ast.Is)):
                    vals = [c]
                elif isinstance(t.ops[0], ast.In) and isinstance(c, (ast.Tuple, ast.List, ast.Set)):
                    vals = list(c.elts)
            elif isinstance(t, guards._MatchFact) and ast.unparse(t.subject) == subject:
                pats = t.pattern.patterns if isinstance(t.pattern, ast.MatchOr) else [t.pattern]
                vals = [p.value for p in pats if isinstance(p, ast.MatchValue)]
            for v in vals:
                out.setdefault(ast.unparse(v), []).append(st)
    return out


def reach(node, resolve, depth=2):
    """`node` plus the bodies of the private helpers called inside it (parameters replaced by the arguments, helper
    locals kept): the scope in which a rule looks for reference fragments when it does not matter whether a piece of
    the computation sits in the function itself or in a helper with early returns (which cannot be inlined)."""
    out = [node]
    frontier = [node]
    seen = set()
    for _ in range(depth):
        nxt = []
        for nd in frontier:
            for c in (x for x in ast.walk(nd) if isinstance(x, ast.Call)):
                r = resolve(c)
                if r is None or r[0].name in seen:
                    continue
                h, recv = r
                seen.add(h.name)
                params = [a.arg for a in h.args.posonlyargs + h.args.args]
                args = ([recv] if recv is not None else []) + list(c.args)
                sub = {p: a for p, a in zip(params, args) if _simple_arg(a)}
                for k in c.keywords:
                    if k.arg in params and _simple_arg(k.value):
                        sub[k.arg] = k.value

                class S(ast.NodeTransformer):
                    def visit_Name(self, x):
                        if x.id in sub:
                            r_ = clone(sub[x.id])
                            if isinstance(r_, ast.Name):
                                r_.ctx = x.ctx
                            return ast.copy_location(r_, x)
                        return x

                body = ast.Module(body=[S().visit(clone(s_)) for s_ in h.body], type_ignores=[])
                ast.fix_missing_locations(body)
                for n_ in ast.walk(body):
                    for ch in ast.iter_child_nodes(n_):
                        ch._parent = n_
                body._parent = None
                out.append(body)
                nxt.append(body)
        frontier = nxt
    return out


# ----------------------------------------------------------------------------- partial evaluation under assumptions
_UNKNOWN = object()


def _const_of(node):
    if isinstance(node, ast.Constant):
        return node.value
    return _UNKNOWN


def _is_global_ref(node, locs):
    """a dotted name rooted in something that is not a local of the function: a module, a class, a global function -
    never None"""
    d = node
    while isinstance(d, ast.Attribute):
        d = d.value
    return isinstance(node, (ast.Attribute, ast.Name)) and isinstance(d, ast.Name) and d.id not in locs


class _Fold(ast.NodeTransformer):
    def __init__(self, assume, env, locs):
        self.assume, self.env, self.locs = assume, env, locs

    def visit(self, node):
        if isinstance(node, ast.expr):
            try:
                key = ast.unparse(node)
            except Exception:  # noqa: BLE001
                key = None
            if key in self.assume:
                return ast.copy_location(ast.Constant(self.assume[key]), node)
        if isinstance(node, (ast.Lambda, ast.FunctionDef, ast.ClassDef)):
            return node
        return super().visit(node)

    def visit_Name(self, node):
        if isinstance(node.ctx, ast.Load) and node.id in self.env:
            return clone(self.env[node.id])
        return node

    def visit_Compare(self, node):
        self.generic_visit(node)
        if len(node.ops) != 1:
            return node
        a, b, op = node.left, node.comparators[0], node.ops[0]
        ca, cb = _const_of(a), _const_of(b)
        val = _UNKNOWN
        if ca is not _UNKNOWN and cb is not _UNKNOWN:
            try:
                if isinstance(op, ast.Eq):
                    val = ca == cb
                elif isinstance(op, ast.NotEq):
                    val = ca != cb
                elif isinstance(op, ast.Is):
                    val = ca is cb if (ca is None or cb is None or isinstance(ca, bool)) else ca == cb
                elif isinstance(op, ast.IsNot):
                    val = ca is not cb if (ca is None or cb is None or isinstance(ca, bool)) else ca != cb
            except Exception:  # noqa: BLE001
                val = _UNKNOWN
        elif ca is not _UNKNOWN and isinstance(op, (ast.In, ast.NotIn)) and isinstance(b, (ast.Tuple, ast.List, ast.Set)):
            elts = [_const_of(e) for e in b.elts]
            if all(e is not _UNKNOWN for e in elts):
                val = (ca in elts) if isinstance(op, ast.In) else (ca not in elts)
        elif isinstance(op, (ast.Is, ast.IsNot)) and ((cb is None and _is_global_ref(a, self.locs)) or (ca is None and _is_global_ref(b, self.locs))):
            val = isinstance(op, ast.IsNot)
        if val is _UNKNOWN:
            return node
        return ast.copy_location(ast.Constant(bool(val)), node)

    def visit_UnaryOp(self, node):
        self.generic_visit(node)
        c = _const_of(node.operand)
        if isinstance(node.op, ast.Not) and c is not _UNKNOWN:
            return ast.copy_location(ast.Constant(not c), node)
        return node

    def visit_BoolOp(self, node):
        self.generic_visit(node)
        vals = []
        for v in node.values:
            c = _const_of(v)
            if c is _UNKNOWN:
                vals.append(v)
                continue
            if isinstance(node.op, ast.And):
                if not c:
                    # a falsy constant decides an `and` when everything before it was dropped as truthy
                    return ast.copy_location(ast.Constant(c), node) if not vals else ast.copy_location(ast.BoolOp(ast.And(), [*vals, v]), node)
            elif c:
                return ast.copy_location(ast.Constant(c), node) if not vals else ast.copy_location(ast.BoolOp(ast.Or(), [*vals, v]), node)
        if not vals:
            return ast.copy_location(ast.Constant(isinstance(node.op, ast.And)), node)
        if len(vals) == 1:
            return vals[0]
        node.values = vals
        return node

    def visit_IfExp(self, node):
        node.test = self.visit(node.test)
        c = _const_of(node.test)
        if c is _UNKNOWN:
            node.body = self.visit(node.body)
            node.orelse = self.visit(node.orelse)
            return node
        return self.visit(node.body if c else node.orelse)

    def visit_Call(self, node):
        self.generic_visit(node)
        # {k: v, ..}.get(K[, default]) with constant keys
        f = node.func
        if isinstance(f, ast.Attribute) and f.attr == "get" and isinstance(f.value, ast.Dict) and node.args and not node.keywords:
            k = _const_of(node.args[0])
            keys = [_const_of(x) if x is not None else _UNKNOWN for x in f.value.keys]
            if k is not _UNKNOWN and all(x is not _UNKNOWN for x in keys):
                for kk, vv in zip(keys, f.value.values):
                    if kk == k:
                        return vv
                return node.args[1] if len(node.args) > 1 else ast.copy_location(ast.Constant(None), node)
        return node

    def visit_Subscript(self, node):
        self.generic_visit(node)
        if isinstance(node.value, ast.Dict) and isinstance(node.ctx, ast.Load):
            k = _const_of(node.slice)
            keys = [_const_of(x) if x is not None else _UNKNOWN for x in node.value.keys]
            if k is not _UNKNOWN and all(x is not _UNKNOWN for x in keys):
                for kk, vv in zip(keys, node.value.values):
                    if kk == k:
                        return vv
        return node


def _assigned_names(stmts):
    out = set()
    for st in stmts:
        for n in ast.walk(st):
            if isinstance(n, ast.Name) and isinstance(n.ctx, (ast.Store, ast.Del)):
                out.add(n.id)
    return out


def _spec_body(stmts, assume, env, locs):
    """(new statements, falls_through)"""
    out = []
    for st in stmts:
        fold = _Fold(assume, env, locs)
        if isinstance(st, ast.If):
            test = fold.visit(clone(st.test))
            c = _const_of(test)
            if c is not _UNKNOWN:
                body, through = _spec_body(st.body if c else st.orelse, assume, env, locs)
                out.extend(body)
                if not through:
                    return out, False
                continue
            e1, e2 = dict(env), dict(env)
            b1, t1 = _spec_body(st.body, assume, e1, locs)
            b2, t2 = _spec_body(st.orelse, assume, e2, locs)
            new = ast.copy_location(ast.If(test, b1 or [ast.Pass()], b2), st)
            out.append(new)
            for k in list(env):
                if k in _assigned_names(st.body) | _assigned_names(st.orelse):
                    env.pop(k, None)
            if not t1 and not t2:
                return out, False
            continue
        if isinstance(st, ast.Match):
            subj = fold.visit(clone(st.subject))
            c = _const_of(subj)
            if c is not _UNKNOWN:
                taken = None
                decided = True
                for case in st.cases:
                    if case.guard is not None:
                        decided = False
                        break
                    pats = case.pattern.patterns if isinstance(case.pattern, ast.MatchOr) else [case.pattern]
                    hit = False
                    for p in pats:
                        if isinstance(p, ast.MatchValue) and _const_of(p.value) is not _UNKNOWN:
                            hit = hit or _const_of(p.value) == c
                        elif isinstance(p, ast.MatchSingleton):
                            hit = hit or p.value is c
                        elif isinstance(p, ast.MatchAs) and p.pattern is None and p.name is None:
                            hit = True
                        else:
                            decided = False
                    if not decided:
                        break
                    if hit:
                        taken = case
                        break
                if decided:
                    if taken is None:
                        continue
                    body, through = _spec_body(taken.body, assume, env, locs)
                    out.extend(body)
                    if not through:
                        return out, False
                    continue
        if isinstance(st, (ast.For, ast.While, ast.Try, ast.With, ast.Match)):
            # not specialised inside; whatever they assign is no longer known
            for k in _assigned_names([st]):
                env.pop(k, None)
            out.append(fold.visit(clone(st)))
            continue
        new = fold.visit(clone(st))
        if isinstance(new, ast.Assign) and len(new.targets) == 1 and isinstance(new.targets[0], ast.Name):
            name = new.targets[0].id
            env.pop(name, None)
            v = new.value
            if isinstance(v, ast.Constant) or _is_global_ref(v, locs):
                env[name] = v
        else:
            for k in _assigned_names([new]):
                env.pop(k, None)
        out.append(new)
        if isinstance(new, (ast.Return, ast.Raise, ast.Continue, ast.Break)):
            return out, False
    return out, True


def specialise(fn, assume):
    """`fn` partially evaluated under `assume` ({source text of an expression: Python constant}): the expressions are
    replaced by the constants, comparisons / boolean operators / conditional expressions / `{..}.get(K)` over constants
    are folded, locals bound to a constant or to a global reference are propagated in statement order, and `if` /
    `match` statements whose test is decided are replaced by the arm taken; statements after a return are dropped.
    What is left is what the function does for inputs that satisfy the assumptions, whether it was written as an
    if-chain, match/case, a dispatch dictionary or a conditional expression."""
    locs = set(local_names(fn))
    a = fn.args
    locs |= {x.arg for x in a.args + a.kwonlyargs + a.posonlyargs} | ({a.vararg.arg} if a.vararg else set()) | ({a.kwarg.arg} if a.kwarg else set())
    body, _ = _spec_body(fn.body, assume, {}, locs)
    new = clone(fn)
    new.body = body or [ast.Pass()]
    ast.fix_missing_locations(new)
    return new
