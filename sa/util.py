"""Shared extraction helpers: attribute reads/writes on a receiver, super() calls,
simple shape classification of right-hand sides."""

from __future__ import annotations

import ast

from .core import FuncTypes, dotted, walk_no_nested

MUTATORS = {
    "add",
    "append",
    "extend",
    "update",
    "clear",
    "discard",
    "remove",
    "pop",
    "popitem",
    "insert",
    "setdefault",
    "difference_update",
    "intersection_update",
    "symmetric_difference_update",
    "sort",
    "reverse",
}


def recv_attr(node, recv):
    """If node is `recv.X` return X else None."""
    if isinstance(node, ast.Attribute) and isinstance(node.value, ast.Name) and node.value.id == recv:
        return node.attr
    return None


def attr_root(node, recv):
    """For `recv.X.a.b[...]` return X (first attribute on the receiver), else None."""
    cur = node
    last = None
    while True:
        if isinstance(cur, ast.Attribute):
            last = cur
            cur = cur.value
        elif isinstance(cur, ast.Subscript):
            cur = cur.value
            last = None if not isinstance(cur, ast.Attribute) else last
        elif isinstance(cur, ast.Call):
            return None
        else:
            break
    if isinstance(cur, ast.Name) and cur.id == recv:
        # find the attribute directly on recv
        n = node
        found = None
        while isinstance(n, (ast.Attribute, ast.Subscript)):
            if isinstance(n, ast.Attribute) and isinstance(n.value, ast.Name) and n.value.id == recv:
                found = n.attr
            n = n.value
        return found
    return None


def _targets(t):
    if isinstance(t, (ast.Tuple, ast.List)):
        for e in t.elts:
            yield from _targets(e)
    elif isinstance(t, ast.Starred):
        yield from _targets(t.value)
    else:
        yield t


def attr_writes(fn, recv="self", nested=False):
    """Yield (attr, kind, stmt_or_expr_node, value_node) for writes through `recv`.
    kind in: assign, aug, mutate, subassign (recv.X[k] = v / recv.X.y = v), del."""
    it = ast.walk(fn) if nested else walk_no_nested(fn)
    for n in it:
        if isinstance(n, ast.Assign):
            for tt in n.targets:
                for t in _targets(tt):
                    a = recv_attr(t, recv)
                    if a is not None:
                        yield a, "assign", n, n.value
                    else:
                        r = attr_root(t, recv)
                        if r is not None:
                            yield r, "subassign", n, n.value
        elif isinstance(n, ast.AnnAssign):
            a = recv_attr(n.target, recv)
            if a is not None and n.value is not None:
                yield a, "assign", n, n.value
        elif isinstance(n, ast.AugAssign):
            a = recv_attr(n.target, recv)
            if a is not None:
                yield a, "aug", n, n.value
            else:
                r = attr_root(n.target, recv)
                if r is not None:
                    yield r, "subassign", n, n.value
        elif isinstance(n, ast.Delete):
            for t in n.targets:
                r = attr_root(t, recv)
                if r is not None:
                    yield r, "del", n, None
        elif isinstance(n, ast.Call) and isinstance(n.func, ast.Attribute) and n.func.attr in MUTATORS:
            r = attr_root(n.func.value, recv)
            if r is not None:
                yield r, "mutate", n, n
        elif isinstance(n, ast.NamedExpr):
            pass


def attr_reads(fn, recv="self", nested=True):
    """Yield (attr, node) for every load of recv.X."""
    it = ast.walk(fn) if nested else walk_no_nested(fn)
    for n in it:
        if (
            isinstance(n, ast.Attribute)
            and isinstance(n.ctx, ast.Load)
            and isinstance(n.value, ast.Name)
            and n.value.id == recv
        ):
            yield n.attr, n


def is_super_call(call, method=None):
    """super().m(...) -> m"""
    f = call.func
    if (
        isinstance(f, ast.Attribute)
        and isinstance(f.value, ast.Call)
        and isinstance(f.value.func, ast.Name)
        and f.value.func.id == "super"
    ):
        if method is None or f.attr == method:
            return f.attr
    return None


def explicit_base_call(call, method=None):
    """Base.m(self, ...) -> (Base-expr-text, m)"""
    f = call.func
    if isinstance(f, ast.Attribute) and call.args and isinstance(call.args[0], ast.Name) and call.args[0].id == "self":
        d = dotted(f.value)
        if d and d[0].isupper() or (d and "." in d and d.split(".")[-1][0].isupper()):
            if method is None or f.attr == method:
                return d, f.attr
    return None


def is_noop_body(fn):
    """Body consists only of docstring / pass / bare return / return None."""
    for st in fn.body:
        if isinstance(st, ast.Pass):
            continue
        if isinstance(st, ast.Expr) and isinstance(st.value, ast.Constant):
            continue
        if isinstance(st, ast.Return) and (
            st.value is None or (isinstance(st.value, ast.Constant) and st.value.value is None)
        ):
            continue
        return False
    return True


CONTAINER_CTORS = {
    "list",
    "set",
    "dict",
    "frozenset",
    "weakref.WeakSet",
    "weakref.WeakValueDictionary",
    "weakref.WeakKeyDictionary",
    "WeakSet",
    "WeakValueDictionary",
    "WeakKeyDictionary",
    "collections.OrderedDict",
    "OrderedDict",
    "collections.defaultdict",
    "defaultdict",
    "collections.deque",
    "deque",
    "bytearray",
}


def is_fresh_container(node):
    """Expression certainly evaluates to a freshly allocated container."""
    if isinstance(node, (ast.List, ast.Set, ast.Dict, ast.ListComp, ast.SetComp, ast.DictComp)):
        return True
    if isinstance(node, ast.Call):
        d = dotted(node.func)
        if d in CONTAINER_CTORS:
            return True
        if isinstance(node.func, ast.Attribute) and node.func.attr in ("copy", "deepcopy"):
            return True
        if d in ("copy.copy", "copy.deepcopy"):
            return True
    return False


def may_be_mutable_container(node):
    """Initial value that is (or may be) a mutable container."""
    if is_fresh_container(node):
        return True
    if isinstance(node, ast.BoolOp):
        return any(may_be_mutable_container(v) for v in node.values)
    if isinstance(node, ast.IfExp):
        return may_be_mutable_container(node.body) or may_be_mutable_container(node.orelse)
    return False


def func_param(fn, idx):
    a = fn.args.posonlyargs + fn.args.args
    return a[idx].arg if len(a) > idx else None


def kw(call, name):
    for k in call.keywords:
        if k.arg == name:
            return k.value
    return None


def defaults_of(fn):
    """param name -> default expr"""
    a = fn.args
    pos = a.posonlyargs + a.args
    out = {}
    for p, d in zip(pos[len(pos) - len(a.defaults):], a.defaults):
        out[p.arg] = d
    for p, d in zip(a.kwonlyargs, a.kw_defaults):
        if d is not None:
            out[p.arg] = d
    return out


def depends_on(expr, names, fn=None, depth=3):
    """Does `expr` syntactically mention one of `names`, following local single
    assignments in `fn` up to `depth` levels (flow-insensitive, over-approximating)."""
    seen = set()
    work = [(expr, 0)]
    assigns = {}
    if fn is not None:
        for n in walk_no_nested(fn):
            if isinstance(n, ast.Assign):
                for tt in n.targets:
                    for t in _targets(tt):
                        if isinstance(t, ast.Name):
                            assigns.setdefault(t.id, []).append(n.value)
            elif isinstance(n, ast.AugAssign) and isinstance(n.target, ast.Name):
                assigns.setdefault(n.target.id, []).append(n.value)
            elif isinstance(n, ast.NamedExpr) and isinstance(n.target, ast.Name):
                assigns.setdefault(n.target.id, []).append(n.value)
            elif isinstance(n, (ast.For, ast.comprehension)):
                for t in _targets(n.target):
                    if isinstance(t, ast.Name):
                        assigns.setdefault(t.id, []).append(n.iter)
            elif isinstance(n, ast.withitem) and n.optional_vars is not None:
                for t in _targets(n.optional_vars):
                    if isinstance(t, ast.Name):
                        assigns.setdefault(t.id, []).append(n.context_expr)
    while work:
        e, d = work.pop()
        for n in ast.walk(e):
            if isinstance(n, ast.Name):
                if n.id in names:
                    return True
                if d < depth and n.id in assigns and n.id not in seen:
                    seen.add(n.id)
                    for v in assigns[n.id]:
                        work.append((v, d + 1))
            elif isinstance(n, ast.Attribute):
                dd = dotted(n)
                if dd and dd in names:
                    return True
    return False


def local_assignments(fn):
    out = {}
    for n in walk_no_nested(fn):
        if isinstance(n, ast.Assign):
            for tt in n.targets:
                for t in _targets(tt):
                    if isinstance(t, ast.Name):
                        out.setdefault(t.id, []).append(n)
    return out


def inline_aliases(fn, interesting):
    """Copy of `fn` in which single-assignment locals bound to an expression satisfying `interesting(expr)`
    are replaced by that expression at their uses (so `exhausted = self._a if s else self._b; exhausted[k] = v`
    is seen as `(self._a if s else self._b)[k] = v`).  Parent links and qualname/module tags are preserved."""
    import copy

    counts, defs = {}, {}
    for n in walk_no_nested(fn):
        if isinstance(n, ast.Assign):
            for tt in n.targets:
                for t in _targets(tt):
                    if isinstance(t, ast.Name):
                        counts[t.id] = counts.get(t.id, 0) + 1
                        if len(n.targets) == 1 and tt is t:
                            defs[t.id] = n.value
        elif isinstance(n, (ast.AugAssign, ast.For, ast.comprehension, ast.NamedExpr)):
            tg = n.target
            for t in _targets(tg):
                if isinstance(t, ast.Name):
                    counts[t.id] = counts.get(t.id, 0) + 2
    al = {k: v for k, v in defs.items() if counts.get(k) == 1 and interesting(v)}
    if not al:
        return fn
    new = copy.deepcopy(fn)

    class T(ast.NodeTransformer):
        def visit_Name(self, n):
            if isinstance(n.ctx, ast.Load) and n.id in al:
                return ast.copy_location(copy.deepcopy(al[n.id]), n)
            return n

    T().visit(new)
    ast.fix_missing_locations(new)
    for node in ast.walk(new):
        for child in ast.iter_child_nodes(node):
            child._parent = node
    new._parent = getattr(fn, "_parent", None)
    for a in ("_qualname", "_module", "_class"):
        if hasattr(fn, a):
            setattr(new, a, getattr(fn, a))
    return new


def methods_of(cdef):
    return {st.name: st for st in cdef.body if isinstance(st, FuncTypes)}
